#!/usr/bin/env python3
"""Prints the per-property cost table of DESIGN §10.4 from the evidence files of the last quick pass."""
import glob, json, os
V = os.path.dirname(os.path.dirname(os.path.realpath(__file__)))
rows = []
for f in sorted(glob.glob(os.path.join(V, "evidence", "C*.json"))):
    d = json.load(open(f)); c = d["coverage"]; hs = c["harnesses"]
    slow = max(hs, key=lambda h: h["wall_s"])
    rows.append((d["property_id"], d["tier"], len(hs), c["evaluations"], c["distinct_nontrivial"],
                 round(c.get("solver_time_s", 0)), round(sum(h["wall_s"] for h in hs)), round(d["wall_s"]),
                 "%s (%ds)" % (slow["harness"], slow["wall_s"]), len(c.get("known_findings_hit", []))))
print("| property | tier | harnesses | CBMC checks decided | obligations + witnesses | solver s | sum of harness wall s | check wall s | slowest harness | known findings hit |")
print("|---|---|---|---|---|---|---|---|---|---|")
for r in rows:
    print("| " + " | ".join(str(x) for x in r) + " |")
print()
print("Total check wall time: %d s." % sum(r[7] for r in rows))
