"""kv selftest: native validation of the environment stubs (Unicode models vs the real crates).

Run by MANIFEST.setup_cmd and on demand.  Builds /verif/selftest in a scratch target dir with the repository's
own toolchain, offline, using /repo/Cargo.lock for the exact crate versions."""
import os, shutil, subprocess, sys, tempfile

VERIF = os.path.dirname(os.path.dirname(os.path.realpath(__file__)))
REPO = os.environ.get("KV_REPO", "/repo")


def main(args):
    quick = "--quick" in args
    base = os.environ.get("KV_TMP") or os.environ.get("TMPDIR") or "/tmp"
    root = tempfile.mkdtemp(prefix="kv-selftest-", dir=base)
    try:
        proj = os.path.join(root, "selftest")
        shutil.copytree(os.path.join(VERIF, "selftest"), proj)
        shutil.copytree(os.path.join(VERIF, "stubs"), os.path.join(root, "stubs"))
        shutil.copy(os.path.join(REPO, "Cargo.lock"), os.path.join(proj, "Cargo.lock"))
        env = dict(os.environ, CARGO_NET_OFFLINE="true", CARGO_TARGET_DIR=os.path.join(root, "target"))
        r = subprocess.run(["cargo", "run", "--offline", "--quiet", "--", "3" if quick else "4"], cwd=proj, env=env,
                           capture_output=True, text=True)
        sys.stdout.write(r.stdout)
        if r.returncode != 0:
            sys.stdout.write(r.stderr[-3000:])
            print("kv selftest: FAILED")
            return 1
        print("kv selftest: ok")
        return 0
    finally:
        shutil.rmtree(root, ignore_errors=True)
