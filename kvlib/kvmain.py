"""kv driver implementation (python3 stdlib only).  See DESIGN.md §2 for the pipeline."""
import atexit
import glob
import json
import os
import re
import resource
import shutil
import signal
import subprocess
import sys
import tempfile
import threading
import time

VERIF = os.path.dirname(os.path.dirname(os.path.realpath(__file__)))
REPO = os.environ.get("KV_REPO", "/repo")
HARNESS_DIR = os.path.join(VERIF, "harness")
STUBS_DIR = os.path.join(VERIF, "stubs")
EVID_DIR = os.environ.get("KV_EVID_DIR") or os.path.join(VERIF, "evidence")
LOG_DIR = os.path.join(VERIF, ".kvlogs")
KNOWN_FILE = os.path.join(VERIF, "known_findings.json")

MEM_BUDGET_GB = int(os.environ.get("KV_MEM_GB", "44"))
MAX_JOBS = int(os.environ.get("KV_JOBS", "10"))

# crates.io patches available to harness configurations.  `replay_keep` says whether the
# patch is also in force when a counterexample is replayed natively.
PATCHES = {
    "unicode": {
        "crates": {
            "unicode-xid": "unicode-xid",
            "unicode-width": "unicode-width",
            "unicode-segmentation": "unicode-segmentation",
        },
        "replay_keep": False,
        "what": "unicode-xid / unicode-width / unicode-segmentation replaced by restricted-alphabet "
                "models (exact on ASCII, U+00E9, U+5B57, U+0301, CR, LF; kani::assume(false) elsewhere)",
    },
    "instant": {
        "crates": {"instant": "instant"},
        "replay_keep": True,
        "what": "`instant` crate replaced by a model clock: Instant is a nanosecond counter, now() returns "
                "an arbitrary non-decreasing value chosen by the harness",
    },
}

# Failure descriptions that are CBMC float-model checks, not Rust semantics (DESIGN §2.2 step 5)
IGNORED_DESC = re.compile(r"^(NaN on |arithmetic overflow on floating-point )")

_cleanup_dirs = []
_children = set()
_children_lock = threading.Lock()


def _cleanup():
    with _children_lock:
        for p in list(_children):
            try:
                os.killpg(p.pid, signal.SIGKILL)
            except Exception:
                pass
    for d in _cleanup_dirs:
        shutil.rmtree(d, ignore_errors=True)


atexit.register(_cleanup)


def _on_signal(signum, frame):
    _cleanup()
    os._exit(130)


signal.signal(signal.SIGTERM, _on_signal)
signal.signal(signal.SIGINT, _on_signal)


def log(msg):
    print(msg, flush=True)


# ----------------------------------------------------------------------------------------
# harness discovery
# ----------------------------------------------------------------------------------------
class Harness:
    def __init__(self):
        self.name = None
        self.file = None          # harness source (under /verif/harness, or generated)
        self.text = None          # harness source text (for generated files)
        self.weave = None         # repo-relative source file it is woven into
        self.props = []
        self.prop_tier = {}
        self.tier = "quick"
        self.timeout = 600
        self.mem = 8
        self.fns = []
        self.bound = []
        self.assumes = []
        self.stubs = []
        self.unwind = None
        self.kani_args = []
        self.config = {}          # patches=[..], features=str, cuts=[..]
        self.order = 0

    @property
    def crate_dir(self):
        m = re.match(r"((?:crates|libs)/[^/]+)/src/", self.weave)
        return m.group(1)

    @property
    def modname(self):
        return "vh_" + re.sub(r"\W", "_", os.path.basename(self.file).split(".")[0])

    @property
    def fullname(self):
        rel = re.sub(r"^(?:crates|libs)/[^/]+/src/", "", self.weave)
        rel = re.sub(r"\.rs$", "", rel)
        parts = [p for p in rel.split("/") if p]
        if parts and parts[-1] in ("lib", "mod", "main"):
            parts = parts[:-1]
        return "::".join(parts + [self.modname, self.name])

    @property
    def config_key(self):
        c = self.config
        return json.dumps([sorted(c.get("patches", [])), c.get("features", ""), sorted(c.get("cuts", []))])


def parse_config(s):
    cfg = {}
    for item in s.split():
        k, _, v = item.partition("=")
        if k in ("patches", "cuts"):
            cfg[k] = [x for x in v.split(",") if x]
        else:
            cfg[k] = v
    return cfg


def parse_harness_text(path, text):
    out = []
    weave = None
    fileconfig = {}
    pending = {}
    in_attrs = False
    stubs = []
    unwind = None
    for line in text.splitlines():
        s = line.strip()
        m = re.match(r"//\s*@(\w[\w-]*)\s*(.*)$", s)
        if m:
            k, v = m.group(1), m.group(2).strip()
            if k == "weave":
                weave = v
            elif k == "config":
                fileconfig = parse_config(v)
            else:
                pending.setdefault(k, []).append(v)
            continue
        if s.startswith("#[kani::proof"):
            in_attrs = True
            continue
        if in_attrs:
            ms = re.match(r"#\[kani::stub\(\s*([^,]+),\s*([^)]+)\)\]", s)
            if ms:
                stubs.append("%s -> %s" % (ms.group(1).strip(), ms.group(2).strip()))
                continue
            mu = re.match(r"#\[kani::unwind\((\d+)\)\]", s)
            if mu:
                unwind = int(mu.group(1))
                continue
            mf = re.match(r"(?:pub\s+)?fn\s+(\w+)\s*\(", s)
            if mf:
                h = Harness()
                h.name = mf.group(1)
                h.file = path
                h.text = text
                h.weave = weave
                h.tier = (pending.get("tier", ["quick"])[0] or "quick")
                # `@props C09 C06:thorough` - a per-property tier overrides the harness tier
                h.props, h.prop_tier = [], {}
                for item in " ".join(pending.get("props", [])).split():
                    name, _, t = item.partition(":")
                    h.props.append(name)
                    h.prop_tier[name] = t or h.tier
                h.timeout = int(pending.get("timeout", ["600"])[0])
                h.mem = int(pending.get("mem", ["8"])[0])
                h.fns = pending.get("fns", [])
                h.bound = pending.get("bound", [])
                h.assumes = pending.get("assume", [])
                h.kani_args = " ".join(pending.get("kani", [])).split()
                h.stubs = stubs
                h.unwind = unwind
                cfg = dict(fileconfig)
                if "config" in pending:
                    cfg.update(parse_config(" ".join(pending["config"])))
                h.config = cfg
                h.order = len(out)
                out.append(h)
                pending, stubs, unwind, in_attrs = {}, [], None, False
                continue
            if s and not s.startswith("#[") and not s.startswith("//"):
                in_attrs = False
    for h in out:
        if not h.weave:
            raise SystemExit("harness file %s has no @weave line" % path)
        if not h.props:
            raise SystemExit("harness %s in %s has no @props" % (h.name, path))
    return out


def discover(tier="thorough"):
    """All harnesses: static .rs files plus the output of generator scripts (*.gen.py)."""
    hs = []
    for path in sorted(glob.glob(os.path.join(HARNESS_DIR, "**", "*.rs"), recursive=True)):
        with open(path) as f:
            hs += parse_harness_text(path, f.read())
    for gen in sorted(glob.glob(os.path.join(HARNESS_DIR, "**", "*.gen.py"), recursive=True)):
        r = subprocess.run([sys.executable, gen, tier], capture_output=True, text=True)
        if r.returncode != 0:
            raise SystemExit("generator %s failed:\n%s" % (gen, r.stderr))
        # a generator prints one or more files separated by lines `//// FILE <name>.rs`
        cur_name, cur = None, []
        for line in r.stdout.splitlines():
            m = re.match(r"//// FILE (\S+)$", line)
            if m:
                if cur_name:
                    hs += parse_harness_text(os.path.join(os.path.dirname(gen), cur_name), "\n".join(cur) + "\n")
                cur_name, cur = m.group(1), []
            else:
                cur.append(line)
        if cur_name:
            hs += parse_harness_text(os.path.join(os.path.dirname(gen), cur_name), "\n".join(cur) + "\n")
    names = {}
    for h in hs:
        if h.name in names:
            raise SystemExit("duplicate harness name %s" % h.name)
        names[h.name] = h
    return hs


# ----------------------------------------------------------------------------------------
# scratch workspaces
# ----------------------------------------------------------------------------------------
def new_root():
    base = os.environ.get("KV_TMP") or os.environ.get("TMPDIR") or "/tmp"
    d = tempfile.mkdtemp(prefix="kv-", dir=base)
    _cleanup_dirs.append(d)
    return d


def sh(cmd, **kw):
    return subprocess.run(cmd, shell=isinstance(cmd, str), capture_output=True, text=True, **kw)


CUTS = {
    # performance caches with no semantic content that make kani-compiler 0.68 ICE (catch_unwind)
    "lazy": (
        "crates/memory/src/ptr_impl/rc.rs",
        re.compile(r"thread_local!\s*\{\s*static VALUE: \$ty = \$expr\.into\(\);\s*\}\s*VALUE\.with\(Clone::clone\)"),
        "{ let value: $ty = $expr.into(); value }",
    ),
}


def prepare_ws(root, name, harness_files, config, for_replay=False, extra_text=None):
    """rsync /repo into root/name, apply patches/cuts of `config`, weave harness files.

    harness_files: {path: text}.  extra_text: {path: text appended to the harness copy}.
    Returns ws path."""
    ws = os.path.join(root, name)
    r = sh(["rsync", "-a", "--delete", "--exclude", "/target", "--exclude", ".git", REPO + "/", ws + "/"])
    if r.returncode != 0:
        raise SystemExit("rsync failed: " + r.stderr)
    patches = [p for p in config.get("patches", []) if not for_replay or PATCHES[p]["replay_keep"]]
    if patches:
        lines = ["", "[patch.crates-io]"]
        for p in patches:
            for crate, sub in PATCHES[p]["crates"].items():
                dst = os.path.join(ws, "verif_stubs", sub)
                shutil.copytree(os.path.join(STUBS_DIR, sub), dst, dirs_exist_ok=True)
                lines.append('%s = { path = "verif_stubs/%s" }' % (crate, sub))
        with open(os.path.join(ws, "Cargo.toml"), "a") as f:
            f.write("\n".join(lines) + "\n")
    if not for_replay:
        for c in config.get("cuts", []):
            path, rx, repl = CUTS[c]
            p = os.path.join(ws, path)
            src = open(p).read()
            new, n = rx.subn(repl, src)
            if n == 0:
                raise SystemExit("cut %s no longer applies to %s" % (c, path))
            open(p, "w").write(new)
    os.makedirs(os.path.join(ws, "verif_h"), exist_ok=True)
    woven = {}
    for hpath, text in harness_files.items():
        hs = parse_harness_text(hpath, text)
        if not hs:
            continue
        h0 = hs[0]
        dst = os.path.join(ws, "verif_h", h0.modname + ".rs")
        with open(dst, "w") as f:
            f.write(text)
            if extra_text and hpath in extra_text:
                f.write("\n" + extra_text[hpath] + "\n")
        src = os.path.join(ws, h0.weave)
        if not os.path.exists(src):
            raise SystemExit("weave target %s does not exist in the tree" % h0.weave)
        with open(src, "a") as f:
            f.write('\n#[cfg(kani)]\n#[path = "%s"]\nmod %s;\n' % (dst, h0.modname))
        woven[hpath] = dst
    return ws


def _limits(mem_gb):
    def f():
        os.setsid()
        lim = min(max(24, 3 * mem_gb), 56) * 1024 ** 3   # @mem is the scheduling weight (expected RSS); the hard cap is three times that, at least 24 GB
        resource.setrlimit(resource.RLIMIT_AS, (lim, lim))
    return f


def run_proc(cmd, cwd, timeout, mem_gb, logfile, env_extra=None):
    env = dict(os.environ)
    env["CARGO_NET_OFFLINE"] = "true"
    env.pop("RUSTUP_TOOLCHAIN", None)
    env.pop("CARGO_TARGET_DIR", None)
    if env_extra:
        env.update(env_extra)
    t0 = time.time()
    with open(logfile, "w") as lf:
        p = subprocess.Popen(cmd, cwd=cwd, stdout=lf, stderr=subprocess.STDOUT, env=env,
                             preexec_fn=_limits(mem_gb))
        with _children_lock:
            _children.add(p)
        timed_out = False
        try:
            p.wait(timeout=timeout)
        except subprocess.TimeoutExpired:
            timed_out = True
            try:
                os.killpg(p.pid, signal.SIGKILL)
            except Exception:
                pass
            p.wait()
        finally:
            # make sure no stray cbmc survives
            try:
                os.killpg(p.pid, signal.SIGKILL)
            except Exception:
                pass
            with _children_lock:
                _children.discard(p)
    return p.returncode, timed_out, time.time() - t0


def feature_args(config):
    f = config.get("features", "")
    if f:
        return ["--no-default-features", "--features", f]
    return []


# ----------------------------------------------------------------------------------------
# result parsing / classification
# ----------------------------------------------------------------------------------------
PLAYBACK_RE = re.compile(
    r"Concrete playback unit test for `([^`]+)`:\n```\n(.*?)\n```", re.S)


def parse_playback(logtext):
    tests = []
    for m in PLAYBACK_RE.finditer(logtext):
        body = m.group(2)
        lab = re.search(r"/// Check for `([^`]+)`: \"(.*)\"\s*$", body, re.M)
        name = re.search(r"fn (kani_concrete_playback_\w+)\(", body)
        vals = [[int(x) for x in v.split(",") if x.strip()] for v in re.findall(r"vec!\[([\d,\s]*)\],", body)]
        # the first vec![ is the outer one and is not matched because it contains newlines/comments
        tests.append({
            "category": lab.group(1) if lab else "?",
            "description": lab.group(2).strip('"') if lab else "?",
            "test_name": name.group(1) if name else None,
            "source": body,
            "concrete_vals": vals,
        })
    return tests


def strip_desc(d):
    d = d.strip()
    if len(d) >= 2 and d[0] == '"' and d[-1] == '"':
        d = d[1:-1]
    return d


class Result:
    def __init__(self, h):
        self.h = h
        self.status = "inconclusive"   # pass | fail | inconclusive
        self.reason = ""
        self.total = 0
        self.passed = 0
        self.failures = []             # violation candidates: dicts(category, description, location)
        self.ignored = []
        self.covers = []               # (description, status)
        self.obligations = []          # user assertions (Cxx.-prefixed) that were reachable and held
        self.stats = {}
        self.wall = 0.0
        self.verification_time = None
        self.playback = []
        self.logfile = None
        self.replayed = []             # per failure: dict(reproduced, native_output, ...)


def classify(h, res, jpath, logtext, rc, timed_out):
    res.playback = parse_playback(logtext)
    if timed_out:
        res.reason = "time-out after %ds" % h.timeout
        return
    m139 = re.search(r"CBMC failed with status (\d+)", logtext)
    if m139 and not os.path.exists(jpath):
        res.reason = "CBMC crashed (status %s)" % m139.group(1)
        return
    if re.search(r"error: internal compiler error|thread 'rustc' panicked|Kani unexpectedly panicked", logtext):
        res.reason = "kani-compiler internal error"
        return
    if re.search(r"^error(\[E\d+\])?:", logtext, re.M) and not os.path.exists(jpath):
        m = re.search(r"^error.*$", logtext, re.M)
        res.reason = "build error: " + (m.group(0)[:200] if m else "?")
        return
    if not os.path.exists(jpath):
        if re.search(r"out of memory|std::bad_alloc|Status: ERROR|memory allocation", logtext, re.I):
            res.reason = "CBMC out of memory / error"
        else:
            res.reason = "no result produced (exit %s)" % rc
        return
    try:
        data = json.load(open(jpath))
    except Exception as e:
        res.reason = "unreadable result json: %s" % e
        return
    vr = data.get("verification_results", {}).get("results", [])
    mine = [r for r in vr if r.get("harness_id", "").endswith("::" + h.name)]
    if len(mine) != 1:
        res.reason = "harness not found in result (%d)" % len(mine)
        return
    r = mine[0]
    for c in data.get("cbmc", []):
        if c.get("harness_id", "").endswith("::" + h.name):
            res.stats = c.get("cbmc_stats") or {}
    res.verification_time = r.get("duration_ms", 0) / 1000.0
    checks = r.get("checks", [])
    res.total = len(checks)
    if re.search(r"Solver ran out of memory|std::bad_alloc", logtext):
        res.reason = "CBMC out of memory (address-space cap %d GB)" % min(max(24, 3 * h.mem), 56)
        return
    if not checks:
        if re.search(r"out of memory|std::bad_alloc|Status: ERROR", logtext, re.I):
            res.reason = "CBMC out of memory / error"
        else:
            res.reason = "no checks reported (status %s)" % r.get("status")
        return
    inconclusive = []
    for c in checks:
        cat, st, desc = c.get("category", ""), c.get("status", ""), strip_desc(c.get("description", ""))
        loc = c.get("location", {})
        locs = "%s:%s" % (loc.get("file", "?"), loc.get("line", "?"))
        if cat == "cover":
            res.covers.append((desc, st))
            continue
        if st in ("Success", "Unreachable"):
            res.passed += 1
            if re.match(r"C\d\d\.", desc) and st == "Success":
                res.obligations.append(desc)
            continue
        if st == "Failure":
            if IGNORED_DESC.match(desc) or cat == "NaN":
                res.ignored.append(desc)
                continue
            if cat == "unwind" or "unwinding assertion" in desc:
                inconclusive.append("unwinding bound too small at " + locs)
                continue
            if cat == "unsupported_construct":
                inconclusive.append("reachable unsupported construct: %s at %s" % (desc, locs))
                continue
            res.failures.append({"category": cat, "description": desc, "location": locs,
                                 "function": c.get("function", "")})
            continue
        # Undetermined etc.
        inconclusive.append("%s: %s at %s" % (st, desc, locs))
    real_incon = [x for x in inconclusive if not x.startswith("Undetermined")] or inconclusive
    if res.failures:
        res.status = "fail"
        if inconclusive:
            res.reason = "also inconclusive: " + "; ".join(real_incon[:3])
        return
    if inconclusive:
        res.reason = "; ".join(real_incon[:3])
        return
    unsat = [d for d, st in res.covers if st != "Satisfied"]
    if unsat:
        res.reason = "vacuous: cover witness not satisfied: " + "; ".join(unsat[:4])
        return
    res.status = "pass"


# ----------------------------------------------------------------------------------------
# running harnesses
# ----------------------------------------------------------------------------------------
class Group:
    def __init__(self, key, config):
        self.key = key
        self.config = config
        self.harnesses = []
        self.ws = None
        self.t0 = None
        self.build_ok = False
        self.build_log = None
        self.build_wall = 0.0


def kani_cmd(h, tdir, jpath):
    cmd = ["cargo", "kani", "--harness", h.fullname, "--exact", "--target-dir", tdir,
           "-Z", "unstable-options", "--export-json", jpath,
           "-Z", "concrete-playback", "--concrete-playback=print", "-Z", "stubbing"]
    cmd += feature_args(h.config)
    cmd += h.kani_args
    return cmd


def build_group(g, root, idx):
    files = {}
    for h in g.harnesses:
        files[h.file] = h.text
    g.ws = prepare_ws(root, "ws%d" % idx, files, g.config)
    g.t0 = os.path.join(root, "t%d_base" % idx)
    # one --only-codegen pass per crate builds the dependencies and type-checks the harnesses
    crates = sorted({h.crate_dir for h in g.harnesses})
    g.build_ok = True
    for ci, crate in enumerate(crates):
        hs = [h for h in g.harnesses if h.crate_dir == crate]
        cmd = ["cargo", "kani", "--only-codegen", "--target-dir", g.t0, "-Z", "stubbing"]
        # codegen for a single harness only: the others are recompiled per run anyway
        cmd += ["--harness", hs[0].fullname, "--exact"]
        cmd += feature_args(g.config)
        logf = os.path.join(LOG_DIR, "build-%d-%d.log" % (idx, ci))
        rc, to, wall = run_proc(cmd, os.path.join(g.ws, crate), 1500, 24, logf)
        g.build_wall += wall
        g.build_log = logf
        if rc != 0 or to:
            g.build_ok = False
            return


def run_harness(h, g, root, res):
    tdir = os.path.join(root, "t_" + h.name)
    try:
        r = sh(["cp", "-a", g.t0, tdir])
        jpath = os.path.join(tdir, "kv_out.json")
        logf = os.path.join(LOG_DIR, h.name + ".log")
        res.logfile = logf
        rc, to, wall = run_proc(kani_cmd(h, tdir, jpath), os.path.join(g.ws, h.crate_dir),
                                h.timeout, h.mem, logf)
        res.wall = wall
        logtext = open(logf, errors="replace").read()
        try:
            classify(h, res, jpath, logtext, rc, to)
        except Exception as e:  # never let one malformed result take the whole check down
            res.status = "inconclusive"
            res.reason = "driver could not classify the result: %r" % (e,)
    finally:
        shutil.rmtree(tdir, ignore_errors=True)


def schedule(jobs, max_jobs, mem_budget):
    """jobs: list of (mem, fn).  Runs them on threads respecting the memory budget."""
    cv = threading.Condition()
    state = {"mem": 0, "n": 0}
    threads = []

    def runner(mem, fn):
        try:
            fn()
        finally:
            with cv:
                state["mem"] -= mem
                state["n"] -= 1
                cv.notify_all()

    for mem, fn in jobs:
        with cv:
            while state["n"] >= max_jobs or (state["n"] > 0 and state["mem"] + mem > mem_budget):
                cv.wait()
            state["mem"] += mem
            state["n"] += 1
        t = threading.Thread(target=runner, args=(mem, fn))
        t.start()
        threads.append(t)
    for t in threads:
        t.join()


# ----------------------------------------------------------------------------------------
# native replay
# ----------------------------------------------------------------------------------------
def native_replay(root, h, tests, tag):
    """Append the generated playback tests to the harness in a scratch copy of /repo that has no
    solver-side stubs (real Unicode tables; #[kani::stub] is not applied by playback) and run them
    natively.  Returns list of dict(test_name, reproduced, output)."""
    extra = "\n".join(t["source"] for t in tests)
    ws = prepare_ws(root, "replay_" + tag, {h.file: h.text}, h.config, for_replay=True,
                    extra_text={h.file: extra})
    out = []
    for t in tests:
        logf = os.path.join(LOG_DIR, "replay-%s-%s.log" % (h.name, t["test_name"][-8:]))
        cmd = ["cargo", "kani", "playback", "-Z", "concrete-playback"] + feature_args(h.config) + \
              ["--", t["test_name"]]
        rc, to, wall = run_proc(cmd, os.path.join(ws, h.crate_dir), 1200, 24, logf)
        text = open(logf, errors="replace").read()
        ran = re.search(r"test \S*%s \.\.\. (ok|FAILED)" % re.escape(t["test_name"]), text)
        panic = re.search(r"panicked at [^\n]*\n([^\n]*)", text)
        failed = bool(ran and ran.group(1) == "FAILED")
        msg = panic.group(1) if panic else ""
        # a playback-infrastructure panic (the native run took another path and ran out of recorded values,
        # or violated an assumption) is not a reproduction
        infra = bool(re.search(r"Not enough det vals|kani::assume should always hold|concrete_playback", panic.group(0) if panic else ""))
        want = t.get("failure", {}).get("description", "")
        if re.match(r"C\d\d\.", want):
            reproduced = failed and want in text
        else:
            reproduced = failed and not infra
        out.append({
            "test_name": t["test_name"],
            "ran": bool(ran),
            "reproduced": reproduced,
            "panic": (panic.group(0)[:400] if panic else None),
            "log": logf,
            "timed_out": to,
        })
    shutil.rmtree(ws, ignore_errors=True)
    return out


def load_known():
    if not os.path.exists(KNOWN_FILE):
        return []
    return json.load(open(KNOWN_FILE)).get("findings", [])


def obligation_props(desc):
    """Properties an obligation message is tagged with: `C09.line C12.span: text` -> {C09, C12}.  (Kani's assert!
    assumes its condition afterwards, so one condition cannot be asserted twice under two tags.)"""
    m = re.match(r"((?:C\d\d\.[\w.-]+[ /]+)*C\d\d\.[\w.-]+):", desc)
    if not m:
        return set()
    return set(re.findall(r"(C\d\d)\.", m.group(1)))


def counts_for(prop, h, failure):
    """Does this failed check count toward `prop`?  User obligations are prefixed `Cxx.`; panic-class
    checks (no prefix) count toward every property the harness is listed under."""
    tags = obligation_props(failure["description"])
    if tags:
        return prop in tags
    return prop in h.props


# ----------------------------------------------------------------------------------------
# check
# ----------------------------------------------------------------------------------------
def cmd_check(args):
    prop = args[0]
    tier = os.environ.get("VERIF_TIER", "quick")
    only = None
    keep = False
    max_jobs = MAX_JOBS
    i = 1
    while i < len(args):
        if args[i] == "--tier":
            tier = args[i + 1]; i += 2
        elif args[i] == "--only":
            only = set(args[i + 1].split(",")); i += 2
        elif args[i] == "--keep":
            keep = True; i += 1
        elif args[i] == "--jobs":
            max_jobs = int(args[i + 1]); i += 2
        else:
            raise SystemExit("unknown argument " + args[i])
    try:
        seed = int(os.environ.get("VERIF_SEED", "0"))
    except ValueError:
        seed = 0
    t_start = time.time()
    global LOG_DIR
    # one log directory per run; directories of finished earlier runs of the same check are pruned
    logroot = os.path.join(VERIF, ".kvlogs")
    os.makedirs(logroot, exist_ok=True)
    for d in os.listdir(logroot):
        m = re.match(r"%s-%s-(\d+)$" % (re.escape(prop), re.escape(tier)), d)
        if m and not os.path.exists("/proc/%s" % m.group(1)):
            shutil.rmtree(os.path.join(logroot, d), ignore_errors=True)
    LOG_DIR = os.path.join(logroot, "%s-%s-%d" % (prop, tier, os.getpid()))
    os.makedirs(LOG_DIR, exist_ok=True)
    global EVID_DIR
    if only and not os.environ.get("KV_EVID_DIR"):
        # partial runs never overwrite the property's evidence file
        EVID_DIR = os.path.join(VERIF, "evidence", "partial")
    os.makedirs(EVID_DIR, exist_ok=True)

    allh = discover(tier)
    hs = [h for h in allh if prop in h.props and (tier == "thorough" or h.prop_tier.get(prop, h.tier) == "quick")]
    if only:
        hs = [h for h in hs if h.name in only]
    if not hs:
        log("no harness for %s" % prop)
        return 2
    # VERIF_SEED permutes scheduling order only; nothing is sampled (DESIGN §2.3)
    if seed:
        import random
        random.Random(seed).shuffle(hs)
    # longest first
    hs.sort(key=lambda h: -h.timeout)

    root = new_root()
    if keep:
        _cleanup_dirs.remove(root)
        log("scratch kept at " + root)
    groups = {}
    for h in hs:
        g = groups.setdefault(h.config_key, Group(h.config_key, h.config))
        g.harnesses.append(h)
    glist = list(groups.values())
    log("[kv] %s tier=%s: %d harnesses in %d configuration(s); scratch %s" % (prop, tier, len(hs), len(glist), root))
    bt = [threading.Thread(target=build_group, args=(g, root, i)) for i, g in enumerate(glist)]
    for t in bt:
        t.start()
    for t in bt:
        t.join()
    # a harness file that no longer compiles must not take the other files of its group down:
    # rebuild failed multi-file groups one file at a time
    regrouped = []
    extra_idx = len(glist)
    for g in glist:
        files = sorted({h.file for h in g.harnesses})
        if g.build_ok or len(files) <= 1:
            regrouped.append(g)
            continue
        log("[kv] group build failed; retrying its %d harness files separately" % len(files))
        subs = []
        for f in files:
            sg = Group(g.key + "|" + f, g.config)
            sg.harnesses = [h for h in g.harnesses if h.file == f]
            subs.append(sg)
        ts = [threading.Thread(target=build_group, args=(sg, root, extra_idx + i)) for i, sg in enumerate(subs)]
        extra_idx += len(subs)
        for t in ts:
            t.start()
        for t in ts:
            t.join()
        if g.t0:
            shutil.rmtree(g.t0, ignore_errors=True)
        regrouped += subs
    glist = regrouped
    results = {}
    jobs = []
    for g in glist:
        for h in g.harnesses:
            res = Result(h)
            results[h.name] = res
            if not g.build_ok:
                err = ""
                try:
                    txt = open(g.build_log, errors="replace").read()
                    m = re.search(r"^error.*(?:\n.*){0,6}", txt, re.M)
                    err = m.group(0) if m else txt[-400:]
                except Exception:
                    pass
                res.reason = "harness build failed: " + err[:600]
                continue
            jobs.append((h.mem, (lambda h=h, g=g, res=res: run_harness(h, g, root, res))))
    log("[kv] base builds done in %.0fs; running %d harnesses" % (time.time() - t_start, len(jobs)))
    schedule(jobs, max_jobs, MEM_BUDGET_GB)
    for g in glist:
        if g.t0:
            shutil.rmtree(g.t0, ignore_errors=True)

    known = load_known()
    violations = []
    known_hits = []
    inconclusive = []
    os.makedirs(os.path.join(EVID_DIR, "replays"), exist_ok=True)
    not_completed = []
    for h in hs:
        res = results[h.name]
        if res.status == "inconclusive":
            # bounds ladder (DESIGN §2.3): a thorough-only rung that runs out of time or memory is "not completed",
            # which is neither a pass nor a failure as long as every quick rung is conclusive
            if tier == "thorough" and h.prop_tier.get(prop, h.tier) == "thorough" and \
                    re.search(r"time-out|out of memory|CBMC crashed", res.reason):
                not_completed.append((h.name, res.reason))
                res.status = "not-completed"
                continue
            inconclusive.append((h.name, res.reason))
            continue
        if res.status != "fail":
            continue
        relevant = [f for f in res.failures if counts_for(prop, h, f)]
        if not relevant:
            # failures belong to another property this harness is also listed under
            res.status = "pass-for-this-property"
            continue
        # pick playback tests for the relevant failed checks
        tests = []
        for f in relevant:
            for t in res.playback:
                if t["category"] != "cover" and t["description"] == f["description"] and t["test_name"] \
                        and t not in tests:
                    t["failure"] = f
                    tests.append(t)
        if not tests:
            inconclusive.append((h.name, "failed checks without a concrete counterexample: " +
                                 "; ".join(f["description"] for f in relevant[:3])))
            continue
        tests = tests[:4]
        rep = native_replay(root, h, tests, h.name)
        res.replayed = rep
        reproduced = [(t, r) for t, r in zip(tests, rep) if r["reproduced"]]
        if not reproduced and not any(r["ran"] for r in rep):
            inconclusive.append((h.name, "native replay did not build or run (see %s): %s" % (
                rep[0]["log"], "; ".join(t["description"] for t in tests[:3]))))
            continue
        if not reproduced:
            why = "counterexample did not reproduce natively (encoding or stub suspected)"
            if any(t["failure"]["category"] == "pointer_dereference" for t in tests):
                why += "; pointer-safety check: undefined behaviour without a native symptom, triage by reading"
            inconclusive.append((h.name, why + ": " + "; ".join(t["description"] for t in tests[:3])))
            continue
        for t, r in reproduced:
            f = t["failure"]
            kf = [k for k in known if k.get("status") == "known" and k.get("property") == prop
                  and k.get("harness") == h.name and k.get("check", "") in f["description"]]
            rpath = os.path.join(EVID_DIR, "replays", "%s-%s.json" % (prop, h.name))
            json.dump({
                "property": prop, "harness": h.name, "harness_file": os.path.relpath(h.file, VERIF),
                "weave": h.weave, "config": h.config,
                "failed_check": f, "concrete_vals": t["concrete_vals"],
                "playback_test": t["source"], "test_name": t["test_name"],
                "native_panic": r["panic"],
                "how": "kv replay <this file> appends playback_test to the harness in a scratch copy of "
                       "/repo without solver-side stubs and runs `cargo kani playback` (native execution)",
            }, open(rpath, "w"), indent=1)
            if kf:
                known_hits.append((kf[0], h.name, f))
            else:
                violations.append((h.name, f, rpath))
            break

    # ---------------- evidence
    wall = time.time() - t_start
    write_evidence(prop, tier, seed, hs, results, glist, violations, known_hits, inconclusive, wall, not_completed)

    for h in hs:
        res = results[h.name]
        log("[kv]   %-34s %-13s checks=%-5d covers=%d/%d wall=%.0fs %s" % (
            h.name, res.status, res.total, sum(1 for _, s in res.covers if s == "Satisfied"),
            len(res.covers), res.wall, " ".join(res.reason.split())[:160]))
    for kf, hn, f in known_hits:
        log("KNOWN-FINDING: property=%s %s [%s: %s]" % (prop, kf.get("what", ""), hn, f["description"]))
    for hn, f, rpath in violations:
        log("[kv] violated: %s: %s (%s) at %s" % (hn, f["description"], f["category"], f["location"]))
        log("VIOLATION property=%s replay=%s" % (prop, rpath))
    for hn, why in not_completed:
        log("NOT-COMPLETED harness=%s %s (thorough rung; neither pass nor failure)" % (hn, " ".join(why.split())[:200]))
    if violations:
        return 1
    if inconclusive:
        for hn, why in inconclusive:
            log("INCONCLUSIVE harness=%s %s" % (hn, " ".join(why.split())[:300]))
        return 2
    log("[kv] %s: all %d completed harnesses held within their bounds (%.0fs)" % (prop, len(hs) - len(not_completed), wall))
    return 0


def write_evidence(prop, tier, seed, hs, results, glist, violations, known_hits, inconclusive, wall, not_completed=()):
    per = []
    evaluations = 0
    distinct = set()
    samples = []
    solver_s = 0.0
    patches_used = set()
    for h in hs:
        res = results[h.name]
        evaluations += res.total
        for d in set(res.obligations):
            distinct.add((h.name, d))
        for d, st in res.covers:
            if st == "Satisfied":
                distinct.add((h.name, "cover:" + d))
        solver_s += float(res.stats.get("runtime_decision_procedure_s", 0) or 0)
        for p in h.config.get("patches", []):
            patches_used.add(p)
        for t in res.playback:
            if t["category"] == "cover" and len(samples) < 12:
                samples.append({"harness": h.name, "witness": t["description"],
                                "kani_any_values_le_bytes": t["concrete_vals"]})
        per.append({
            "harness": h.name,
            "file": os.path.relpath(h.file, VERIF),
            "woven_into": h.weave,
            "functions_encoded": h.fns,
            "bound": h.bound,
            "unwind": h.unwind,
            "kani_args": h.kani_args,
            "assumptions": h.assumes,
            "stubs": h.stubs + [PATCHES[p]["what"] for p in h.config.get("patches", [])] +
                     ["cut:" + c for c in h.config.get("cuts", [])],
            "features": h.config.get("features", "default"),
            "tier": h.prop_tier.get(prop, h.tier),
            "verdict": res.status,
            "reason": res.reason,
            "cbmc_checks": res.total,
            "cbmc_checks_passed": res.passed,
            "filtered_float_model_checks": len(res.ignored),
            "obligations_held": sorted(set(res.obligations)),
            "cover_witnesses": [{"witness": d, "status": st} for d, st in res.covers],
            "failed_checks": res.failures,
            "native_replay": res.replayed,
            "symex_s": res.stats.get("runtime_symex_s"),
            "solver_s": res.stats.get("runtime_decision_procedure_s"),
            "vccs_generated": res.stats.get("vccs_generated"),
            "vccs_remaining": res.stats.get("vccs_remaining"),
            "verification_s": res.verification_time,
            "wall_s": round(res.wall, 1),
        })
    if not samples:
        for h in hs:
            samples.append({"harness": h.name, "obligations": sorted(set(results[h.name].obligations))[:4]})
    ev = {
        "property_id": prop,
        "tier": tier,
        "seed": seed,
        "level": "model_checking",
        "coverage": {
            "evaluations": evaluations,
            "distinct_nontrivial": len(distinct),
            "rule": "evaluations = CBMC properties (obligation assertions, panic/overflow/bounds/pointer checks, "
                    "unwinding assertions) decided by the SAT solver over the goto-program compiled from /repo's "
                    "current source, summed over harnesses; distinct_nontrivial = distinct (harness, obligation) "
                    "pairs whose assertion was reachable and held plus distinct cover witnesses the solver satisfied "
                    "(vacuity guard). Nothing is sampled: each harness is one bounded all-inputs query.",
            "samples": samples,
            "harnesses": per,
            "solver_time_s": round(solver_s, 3),
            "engine": "Kani 0.68.0 / CBMC 6.11.0 / CaDiCaL",
            "exhaustive": False,
            "inconclusive": [{"harness": a, "why": b} for a, b in inconclusive],
            "rungs_not_completed": [{"harness": a, "why": b} for a, b in not_completed],
            "known_findings_hit": [{"id": k.get("id"), "harness": hn, "check": f["description"]}
                                   for k, hn, f in known_hits],
            "build_s": round(sum(g.build_wall for g in glist), 1),
        },
        "assumptions": sorted({a for h in hs for a in h.assumes} |
                              {PATCHES[p]["what"] for p in patches_used} |
                              {"Kani 0.68 MIR->goto translation, CBMC 6.11 and CaDiCaL are trusted for passes; "
                               "violations are only reported after native replay",
                               "dev-profile semantics (overflow-checks on), Kani's pinned nightly toolchain"}),
        "wall_s": round(wall, 1),
        "violations": len(violations),
    }
    with open(os.path.join(EVID_DIR, prop + ".json"), "w") as f:
        json.dump(ev, f, indent=1)


# ----------------------------------------------------------------------------------------
def cmd_list(args):
    hs = discover("thorough")
    for h in hs:
        if args and args[0] not in h.props:
            continue
        print("%-36s %-26s %-8s t=%-5d m=%-3d %s  [%s]" % (
            h.name, ",".join("%s:%s" % (p, h.prop_tier[p][0]) for p in h.props), h.tier, h.timeout, h.mem, h.weave, h.config_key))
    return 0


def cmd_replay(args):
    rp = json.load(open(args[0]))
    global LOG_DIR
    LOG_DIR = os.path.join(VERIF, ".kvlogs", "replay")
    os.makedirs(LOG_DIR, exist_ok=True)
    hs = [h for h in discover("thorough") if h.name == rp["harness"]]
    if not hs:
        log("harness %s no longer exists" % rp["harness"])
        return 2
    h = hs[0]
    root = new_root()
    t = {"source": rp["playback_test"], "test_name": rp["test_name"], "failure": rp.get("failed_check", {})}
    out = native_replay(root, h, [t], "manual")
    r = out[0]
    log("replay of %s / %s: %s" % (rp["harness"], rp["failed_check"]["description"],
                                   "REPRODUCED" if r["reproduced"] else ("not reproduced" if r["ran"] else "did not run")))
    if r["panic"]:
        log(r["panic"])
    if r["reproduced"]:
        log("VIOLATION property=%s replay=%s" % (rp["property"], os.path.abspath(args[0])))
        return 1
    return 0 if r["ran"] else 2


def main(argv):
    if not argv:
        print(__doc__)
        return 2
    cmd, rest = argv[0], argv[1:]
    if cmd == "check":
        return cmd_check(rest)
    if cmd == "list":
        return cmd_list(rest)
    if cmd == "replay":
        return cmd_replay(rest)
    if cmd == "regress":
        # replay every pre-fix counterexample kept under /verif/regressions against the current tree
        worst = 0
        for f in sorted(glob.glob(os.path.join(VERIF, "regressions", "*.json"))):
            rc = cmd_replay([f])
            worst = max(worst, rc if rc in (1, 2) else 0) if worst != 1 else 1
            if rc == 1:
                worst = 1
        return worst
    if cmd == "selftest":
        import selftest
        return selftest.main(rest)
    print("unknown command", cmd)
    return 2
