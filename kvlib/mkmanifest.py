import json
claimed = {
 "C01": ("§4 C01", "Bounded model checking (Kani/CBMC, all inputs within the bound) of the arithmetic and range kernels that C01's evaluation rules rest on: wrapping i64 add/sub/neg against an i128 oracle, mul/rem/div against constants and std's wrapping ops, `/` always float, mixed-kind float semantics, integer pow for bases with closed forms over every exponent, KRange construction/bounds/size/indices/contains/intersection over all i64 bounds, negative-index arithmetic. Kernel obligations are necessary for C01, not sufficient: the parser's precedence climbing, every compile_* routine and the VM dispatch loop cannot be encoded (no KotoVm under Kani) and are outside the claim.",
         "Kani 0.68 / CBMC 6.11 / CaDiCaL trusted for passes; dev-profile semantics; full-width float mul/div equivalences replaced by one-operand-constant variants (measured SAT cost); violations only after native replay"),
 "C05": ("§4 C05", "Bounded model checking of the compile-time register allocator (one inductive step of every Frame operation from an arbitrary state satisfying the written invariant; Frame::new layout and limit for every sum 1..262), of the jump encoders (backward and forward, code lengths up to 69000 so the 16-bit boundary is inside) and of the varint / string-format-flag encoders against an independent LEB128 / bit-layout oracle; thorough tier: InstructionReader::next on arbitrary bytes for all 256 opcodes (totality, memory safety of its unsafe copies, and the operand layout the encoder harnesses establish, which composes to encoder-decoder round trips). Does not cover that compile_* routines pair pushes/pops or patch every placeholder, the local-register operations of Frame (harness dropped: out of memory), nor whole-chunk well-formedness or determinism.",
         "Frame invariant hand-written (checked preserved); std::fmt::format and RandomState::new stubbed; jump placeholder positions concrete (0,1,7) with symbolic code length"),
 "C06": ("§4 C06", "Union of totality harnesses: every panic-class CBMC check (unwrap/expect/explicit panic, index and slice bounds, arithmetic overflow, division by zero, pointer checks in unsafe) of the number tower, KRange, lexer step, string slicing / grapheme pops, escape decoding, format-spec parsing, Frame, source iterators, for all inputs within the stated bounds. Says nothing about the parser, compiler, formatter, VM or core-library closures as wholes.",
         "as the individual kernels; lexer harnesses run with CBMC pointer checks off (lexer.rs contains no unsafe code; Rust-level slice/boundary panics stay on)"),
 "C08": ("§4 C08", "Bounded model checking of ExecutionTimeout with time as a solver variable (the `instant` crate is replaced by a model clock returning arbitrary monotonic readings): the deadline is creation+limit and never moves, a timeout is reported only at/after the deadline and always at a poll at/after it, the clock is polled after exactly interval-counter+1 instructions. Where the scheduler is created/consulted in the VM loop, catch handling and runtime reuse are outside the claim; the interval adaptation's accuracy (how far past the deadline the next poll may be) is not decided (f64 SAT query did not finish).",
         "model clock (monotonic, < 2^62 ns); durations < 2^40 ns; CBMC NaN-on-division checks filtered (elapsed may be 0)"),
 "C09": ("§4 C09", "One inductive step of TokenLexer::get_next_token from an arbitrary valid state, for every string over a 31-letter alphabet (28 ASCII, U+00E9, U+0301, U+5B57) in a window of 3 bytes (quick) / 4-5 bytes (thorough), in every lexer mode (default arm with empty / template / inline-map stack, literal, raw start, raw end, format options): contiguous non-empty tokens on character boundaries, start = previous end, end line = start line + LF count, column 0 after LF, indentation rule, mode-stack transitions, no panic. With the initial-state harness this is an induction over the token sequence up to the first Error token.",
         "Unicode tables replaced by models exact on the alphabet (validated natively against the real crates by `kv selftest`); tokens longer than the window only as far as the window reaches; pointer checks off for lexer harnesses (no unsafe in lexer.rs)"),
 "C11": ("§4 C11", "One mechanism only: FormatContext::source_slice (span -> source text, used for number literals and #[fmt:skip] regions) returns exactly the covered text for every region of every 5-byte ASCII source; the multi-byte partition is a recorded known finding (F13). AST preservation, comment carry-over and idempotence need Parser::parse + format over symbolic text and are outside the claim.",
         "spans computed by the lexer's column rule as stated in the harness; Unicode models"),
 "C12": ("§4 C12", "DebugInfo (ip -> span map): after any <= 4 pushes with increasing ips, lookup equals a linear scan of the uncompressed push log for every query ip; lexer step harnesses show every token span ordered and on a line of the text. Which span the compiler pushes for an instruction, trace order and rendering are outside the claim.",
         "ips strictly increasing (push_op pushes bytes.len() before >= 2 bytes)"),
 "C13": ("§4 C13", "Cursor state machines of the bidirectional sources (KRange::pop_front/pop_back as one inductive step from an arbitrary bounded range plus two-pop sequences; ByteIterator against a two-ended-queue oracle over every interleaving of 4 pops; KString grapheme pops) and the adaptors Take, Zip, Chain, Reversed, Enumerate driven through the real KIterator over byte sources with symbolic elements, including their laziness (observed through a shared iterator clone), plus Peekable's iterator protocol from concrete cache shapes. Adaptors with VM callbacks, all consumers, generators and @next objects need a KotoVm and are outside the claim.",
         "outputs are Numbers, created and forgotten (KValue drop glue of unknown variants is outside the encodable fragment); every iterator in a harness is built from concrete types; Peekable's cache slots are set directly"),
 "C14": ("§4 C14", "Equality / hash / order laws of numbers (all 2x2^64 x 2x2^64 pairs, triples for transitivity), of ranges as keys and of KString across its three representations: a == b implies equal hasher feeds, symmetry, reflexivity off NaN, != is the negation, trichotomy, antisymmetry, transitivity, exact mixed int/float comparison up to 2^53 (beyond: known finding F12). Aliasing, copy depth, map insertion order, container equality and sorting are KValue/VM code and outside the claim.",
         "recording Hasher stands for every Hasher"),
 "C15": ("§4 C15", "String re-slicing and escape decoding kernels: StringSlice::new / with_bounds / split and KString::with_bounds create a slice exactly for in-range bounds on character boundaries and as_str is exactly the requested bytes (strings up to 9 bytes mixing 1-, 2-, 3-byte characters); grapheme pops tile the string; escape_string_character decodes every escape over 12 symbolic characters exactly or errors (never another character); format-spec numbers and specs parse exactly. Core-library string functions and interpolation formatting run in the VM and are outside the claim.",
         "caller precondition end <= len for with_bounds/split (established by KRange::indices, itself checked under C01); Unicode models; constant pool stubbed for format-spec parsing"),
 "C20": ("§4 C20", "Serde conversion of primitive values only: every i64 / u8 / bool (thorough: every other integer width up to 64 bits) converted to a Koto value and back is unchanged and becomes the integer number of the same value; an arbitrary number (integer or float, all payloads, NaN and infinities included) converts to an integer type exactly when its (truncated) value is representable, and then to that value, otherwise to an error - never to a saturated or wrapped value (found and fixed F21: from_koto_value::<u8>(300) was Ok(255)); a u64 serializes exactly when it fits an i64; in the other direction a Koto number / bool / null handed to a serde serializer (the value side of json/yaml/toml.to_string) arrives with its own kind and exact value. Strings, chars, sequences, maps, structs, enums, options and the JSON / YAML / TOML text formats are outside the claim: they create and consume containers of KValues of statically unknown variant, and the text parsers / float printers are trip-count-by-input loops.",
         "std::fmt::format stubbed; rc.rs lazy! thread-local cache replaced by direct construction and std::rt::thread_cleanup stubbed (Kani 0.68 ICE work-arounds); serde_core's primitive visitors are part of the encoded code"),
 "C19": ("§4 C19", "Sequential half only: every 4-operation script over the shared-cell API (try_borrow, try_borrow_mut, guard drops, write, read, clone, blocking borrows where they cannot block) checked against one abstract model under both the rc build (Rc<RefCell>) and the arc build (Arc<parking_lot::RwLock>); Ptr clone/ref_count/make_mut/ptr_eq under both. Interleavings (atomicity, lost updates, deadlock) are not addressed: Kani does not model threads.",
         "parking_lot fast paths; single thread"),
}
na = {
 "C02": "Binding, capture and generator resumption execute on Vec<KValue> registers inside KotoVm; apply_*_arguments on concrete-length vectors did not finish symbolic execution in 10 min (KValue drop glue fans out to every dyn KotoIterator/KObject and to KotoVm), capture analysis needs the whole parser. Frame::new's register layout is checked under C05.",
 "C03": "Pattern matching is a jump mesh emitted by compile_match* and run by the VM; neither the code generator over ASTs nor a VM run is encodable under Kani (index helpers are covered under C01).",
 "C04": "Unwinding is call-stack / catch-stack surgery inside KotoVm::execute_instructions; a KotoVm cannot be built under Kani 0.68 (ICE on catch_unwind; with work-arounds > 40 min symbolic execution of KotoVm::default()).",
 "C07": "The state in question is the KotoVm itself; same obstacle as C04, so no hook was added either.",
 "C10": "Layout equivalence relates two complete parses; Parser::parse over partly symbolic text is out of budget (one lexer token from 3 symbolic bytes already costs 1-2 min / 4 GB) and on concrete text there is nothing for a solver to decide.",
 "C16": "Hint checking is KotoVm::compare_value_type on registers plus the choice of emitting routine in the compiler; on/off equivalence relates two whole-program compilations and runs.",
 "C17": "Dispatch is VM macro code; the VM-free derived comparisons of KotoObject drop Error values whose drop glue reaches KValue/KotoVm - the probe harness did not finish symbolic execution in 900 s.",
 "C18": "Import semantics are KotoVm::run_import; the stand-alone find_module with a stubbed file system did not finish symbolic execution in 900 s (PathBuf/OsString manipulation).",
}
checks=[]
for pid,(ref,text,note) in claimed.items():
    checks.append({
      "property_id": pid,
      "quick_cmd": "./kv check %s --tier quick" % pid,
      "thorough_cmd": "./kv check %s --tier thorough" % pid,
      "evidence_file": "/verif/evidence/%s.json" % pid,
      "replay_cmd_template": "./kv replay {path}",
      "engine": "kv",
      "level_claimed": {"category": "model_checking", "text": text, "design_ref": "DESIGN.md "+ref},
      "level_note": note,
      "technique": "solver-based bounded model checking of the real code: Kani 0.68 -> CBMC 6.11 -> CaDiCaL over harnesses woven into a scratch copy of /repo; counterexamples replayed natively",
    })
m={
 "version": 1,
 "setup_cmd": "./kv selftest --quick",
 "hooks": {
  "guard": "kani",
  "enable": "no hook lives in /repo: every check rsyncs /repo's working tree to a scratch directory and appends `#[cfg(kani)] mod vh_*;` harness modules there; cfg(kani) is only ever set by `cargo kani` in that scratch copy",
  "baseline_off_cmd": "cd /repo && cargo test --workspace --no-fail-fast --offline",
  "source_commits": [],
  "add_only": True
 },
 "engines": [
  {"name": "kv", "path": "/verif/kv", "serves_properties": sorted(claimed), "kind_free_text": "bounded model checking of the real Rust kernels: Kani 0.68 -> CBMC 6.11 -> CaDiCaL; harnesses (/verif/harness) woven as child modules into a scratch copy of /repo's working tree on every run; environment stubs in /verif/stubs; native replay of counterexamples via cargo kani playback"}
 ],
 "checks": checks,
 "notes": "Kernel-level claims: each check decides obligations that are necessary for its property (a failure yields a program/API call violating the property as worded), not sufficient. Exit codes: 0 held within bounds, 1 violation reproduced natively, 2 inconclusive. Known findings: /verif/known_findings.json. Repairs of genuine defects in /repo are `fix:` commits listed there.",
 "not_applicable": [{"property_id": k, "reason": v} for k,v in na.items()],
}
json.dump(m, open('/verif/MANIFEST.json','w'), indent=1)
