// Native validation of the Unicode model crates (/verif/stubs) against the real crates the repository uses:
// every character of the alphabet, and every string over a 39-letter sub-alphabet up to length 4.
#![allow(dead_code)]
#[path = "../../stubs/unicode-xid/src/lib.rs"]
mod model_xid;
#[path = "../../stubs/unicode-width/src/lib.rs"]
mod model_width;
#[path = "../../stubs/unicode-segmentation/src/lib.rs"]
mod model_seg;

fn main() {
    let max_len: usize = std::env::args().nth(1).and_then(|s| s.parse().ok()).unwrap_or(4);
    let mut checked = 0u64;
    // single characters: all of ASCII plus the three non-ASCII letters
    let mut all: Vec<char> = (0u8..128).map(|b| b as char).collect();
    all.extend(['\u{e9}', '\u{301}', '\u{5b57}']);
    for &c in &all {
        assert_eq!(model_xid::UnicodeXID::is_xid_start(c), unicode_xid::UnicodeXID::is_xid_start(c), "xid_start {:?}", c);
        assert_eq!(model_xid::UnicodeXID::is_xid_continue(c), unicode_xid::UnicodeXID::is_xid_continue(c), "xid_continue {:?}", c);
        assert_eq!(model_width::UnicodeWidthChar::width(c), unicode_width::UnicodeWidthChar::width(c), "width {:?}", c);
        assert_eq!(model_width::UnicodeWidthChar::width_cjk(c), unicode_width::UnicodeWidthChar::width_cjk(c), "width_cjk {:?}", c);
        checked += 4;
    }
    // strings
    let letters: Vec<char> = " \t\n\r#-'\"{}\\:rasexou_01.<=>^+A9~\0\x7f;".chars().chain(['\u{e9}', '\u{301}', '\u{5b57}']).collect();
    let mut idx = vec![0usize; 0];
    for len in 0..=max_len {
        idx.clear();
        idx.resize(len, 0);
        loop {
            let s: String = idx.iter().map(|&i| letters[i]).collect();
            check_string(&s);
            checked += 1;
            // next
            let mut k = 0;
            while k < len {
                idx[k] += 1;
                if idx[k] < letters.len() {
                    break;
                }
                idx[k] = 0;
                k += 1;
            }
            if k == len {
                break;
            }
        }
    }
    println!("unicode models agree with the real crates on {} cases (strings up to length {} over {} letters)", checked, max_len, letters.len());
}

fn check_string(s: &str) {
    use model_seg::UnicodeSegmentation as M;
    use unicode_segmentation::UnicodeSegmentation as R;
    let m: Vec<&str> = M::graphemes(s, true).collect();
    let r: Vec<&str> = R::graphemes(s, true).collect();
    assert_eq!(m, r, "graphemes of {:?}", s);
    let mb: Vec<&str> = M::graphemes(s, true).rev().collect();
    let rb: Vec<&str> = R::graphemes(s, true).rev().collect();
    assert_eq!(mb, rb, "graphemes (reversed) of {:?}", s);
    let mi: Vec<(usize, &str)> = M::grapheme_indices(s, true).collect();
    let ri: Vec<(usize, &str)> = R::grapheme_indices(s, true).collect();
    assert_eq!(mi, ri, "grapheme_indices of {:?}", s);
    // mixed front/back consumption
    let mut mg = M::graphemes(s, true);
    let mut rg = R::graphemes(s, true);
    assert_eq!(mg.next(), rg.next());
    assert_eq!(mg.next_back(), rg.next_back());
    assert_eq!(mg.as_str(), rg.as_str());
    assert_eq!(model_width::UnicodeWidthStr::width(s), unicode_width::UnicodeWidthStr::width(s), "str width of {:?}", s);
}
