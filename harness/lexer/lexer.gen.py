#!/usr/bin/env python3
"""Generates the lexer step harnesses (DESIGN §4 C09).

Default arm: the first character of the window is concrete per block (so that CBMC's symbolic execution prunes
the dispatch in get_next_token to one consume_* routine: measured 7-115 s per first character instead of 450 s
for a symbolic first byte), the remaining characters are symbolic over the alphabet, in every UTF-8 shape.
String modes: the whole window is symbolic.  Usage: lexer.gen.py <tier>; prints `//// FILE <name>` sections."""
import os, sys

KANI_ARGS = os.environ.get("KV_LEXER_KANI_ARGS", "--no-memory-safety-checks --no-assertion-reach-checks")
HERE = os.path.dirname(os.path.realpath(__file__))

ALPHA = "28 ASCII letters (space tab LF CR # - ' \" { } \\ : r a s e x o u _ 0 1 . < = > ^ +), 2-byte slots in {U+00E9, U+0301}, 3-byte slots = U+5B57"


def shapes(n, maxlen=3):
    if n == 0:
        return [[]]
    out = []
    for k in range(1, min(maxlen, n) + 1):
        for rest in shapes(n - k, maxlen):
            out.append([k] + rest)
    return out


# first characters of the default arm, grouped so that one harness stays around a minute
FIRST_GROUPS = [
    ("ws", [b" ", b"\t"]),
    ("nl", [b"\n", b"\r"]),
    ("hash", [b"#"]),
    ("quote", [b"'", b'"']),
    ("d0", [b"0"]),
    ("d1", [b"1"]),
    ("idr", [b"r"]),
    ("ida", [b"a", b"s"]),
    ("ide", [b"e", b"x"]),
    ("ido", [b"o", b"u"]),
    ("us", [b"_"]),
    ("sym1", [b"-", b"{", b"}", b"\\", b":", b"."]),
    ("sym2", [b"<", b"=", b">", b"^", b"+"]),
    ("u2", [b"\xc3\xa9", b"\xcc\x81"]),
    ("u3", [b"\xe5\xad\x97"]),
]
TEMPLATE_FIRSTS = [("tq", [b"'", b'"', b"r"]), ("ts", [b"{", b"}", b":"])]


def rust_bytes(bs):
    return ", ".join("0x%02x" % b for b in bs)


def block(first, rest_shape, pad, call):
    total = pad + len(first) + sum(rest_shape)
    out = ["    {", "        let mut buf = [b'x'; %d];" % total]
    at = pad
    for b in first:
        out.append("        buf[%d] = 0x%02x;" % (at, b))
        at += 1
    for k in rest_shape:
        out.append("        put%d(&mut buf, %d);" % (k, at))
        at += k
    out.append("        " + call)
    out.append("    }")
    return out


# the harnesses that also run in the quick tier of C06 (no panic) and C12 (spans inside the text)
ALSO_QUICK = {"c09_def0_sym1_n2", "c09_def0_nl_n2", "c09_def0_hash_n2", "c09_format_n2", "c09_def0_u2_n2", "c09_literal_n3_s111"}
# the harnesses that also run in the quick tier of C11 (the column metric the formatter's source_slice relies on)
C11_QUICK = {"c09_literal_n3_s111", "c09_def0_hash_n2", "c09_def0_d1_n2", "c09_format_n2"}


def header(tier, timeout, mem, fns, bound, unwind, name):
    other = "" if name in ALSO_QUICK else ":thorough"
    c11 = "" if name in C11_QUICK else ":thorough"
    # the deepest rung (5-byte windows) only climbs under C09; C06 / C12 / C11 stop at 4-byte windows
    deepest = "_n4" in name
    props = "C09" if deepest else "C09 C06%s C12%s C11%s" % (other, other, c11)
    return [
        "// @props " + props,
        "// @tier %s" % tier,
        "// @timeout %d" % timeout,
        "// @mem %d" % mem,
        "// @fns %s" % fns,
        "// @bound %s" % bound,
        "// @assume pre-state: line, column, indent < 2^30 (no u32 overflow of positions); previous token in {None, NewLine, Dot, Whitespace, Id, StringLiteral}; a token longer than the window is covered only as far as the window reaches (it then runs into the end of the input)",
        "// @kani " + KANI_ARGS,
        "#[kani::proof]",
        "#[kani::unwind(%d)]" % unwind,
        "fn %s() {" % name,
    ]


FNS = {
    "default": "TokenLexer::get_next_token default arm: consume_newline, consume_comment, consume_number, consume_id_or_keyword, parse_raw_string_start, consume_ignored, consume_symbol, advance_line, advance_line_utf8, advance_to_position",
    "literal": "TokenLexer::get_next_token in Literal mode: consume_string_literal, advance_to_position",
    "rawstart": "TokenLexer::get_next_token in RawStart mode: consume_raw_string_contents",
    "rawend": "TokenLexer::get_next_token in RawEnd mode: consume_raw_string_end",
    "format": "TokenLexer::get_next_token in TemplateExprFormat mode: consume_format_options",
}


def default_harness(gname, firsts, nrest, pad, tier, timeout, mem, stack_kind, suffix=""):
    name = "c09_def%d_%s_n%d%s" % (stack_kind, gname, nrest, suffix)
    maxfirst = max(len(f) for f in firsts)
    n = maxfirst + nrest
    bound = ("one step from an arbitrary valid state; window = concrete first character in {%s} followed by %d symbolic bytes in every UTF-8 shape %s, after %d concrete pad byte(s); alphabet: %s; mode stack: %s" % (
        ", ".join(repr(f.decode("utf-8")) for f in firsts), nrest, shapes(nrest), pad, ALPHA,
        {0: "empty", 1: "[Literal, TemplateExpr] (inside a template expression)", 2: "[Literal, TemplateExprInlineMap] (inside an inline map of a template expression)"}[stack_kind]))
    out = header(tier, timeout, mem, FNS["default"], bound, max(n + 2, 4), name)
    for f in firsts:
        for sh in shapes(nrest):
            out += block(f, sh, pad, "step_default(&buf, %d, %d, true);" % (stack_kind, pad))
    out += ["}", ""]
    return "\n".join(out)


def mode_harness(mode, shape_list, n, pad, tier, timeout, mem, suffix=""):
    name = "c09_%s_n%d%s" % (mode, n, suffix)
    bound = "one step from an arbitrary valid state; window of %d symbolic bytes in UTF-8 shapes %s after %d pad byte(s); alphabet: %s; mode: %s" % (
        n, shape_list, pad, ALPHA, mode)
    out = header(tier, timeout, mem, FNS[mode], bound, max(n + 2, 4), name)
    call = {"literal": "step_literal", "rawstart": "step_raw_start", "rawend": "step_raw_end", "format": "step_format"}[mode]
    for sh in shape_list:
        expect = "true" if (1 in sh or mode == "rawend") else "false"
        out += block(b"", sh, pad, "%s(&buf, %d, %s);" % (call, pad, expect))
    out += ["}", ""]
    return "\n".join(out)


def main():
    common = open(os.path.join(HERE, "lexer_common.rs.in")).read()
    body = [common]
    # default arm: nrest symbolic bytes behind the concrete first character
    for nrest, tier, timeout, mem in [(2, "quick", 1500, 6), (3, "thorough", 2400, 10), (4, "thorough", 3600, 30)]:
        for gname, firsts in FIRST_GROUPS:
            body.append(default_harness(gname, firsts, nrest, 1, tier, timeout, mem, 0))
        for gname, firsts in TEMPLATE_FIRSTS:
            body.append(default_harness(gname, firsts, nrest, 1, tier, timeout, mem, 1))
            body.append(default_harness(gname, firsts, nrest, 1, tier, timeout, mem, 2))
    # cursor at the very start of the source (no pad byte): the successor of the initial state
    body.append(default_harness("p0a", [b" ", b"\n", b"a"], 2, 0, "quick", 900, 6, 0, "_p0"))
    body.append(default_harness("p0b", [b"#", b"0", b"\xc3\xa9"], 2, 0, "thorough", 1800, 10, 0, "_p0"))
    # string modes: fully symbolic window
    for n, tier, timeout, mem in [(2, "quick", 1500, 6), (3, "quick", 1500, 6), (4, "thorough", 2400, 20)]:
        for mode in ("literal", "rawstart", "format"):
            if n <= 2:
                body.append(mode_harness(mode, shapes(n) + shapes(1), n, 1, tier, timeout, mem))
            else:
                for sh in shapes(n):
                    t = tier if (n > 3 or all(k == 1 for k in sh)) else "thorough"
                    body.append(mode_harness(mode, [sh], n, 1, t, timeout, mem, "_s" + "".join(map(str, sh))))
    body.append(mode_harness("rawend", [[1], [1, 1], [1, 1, 1], [1, 1, 1, 1]], 4, 1, "quick", 600, 6))
    print("//// FILE lexer_steps.rs")
    print("\n".join(body))


if __name__ == "__main__":
    main()
