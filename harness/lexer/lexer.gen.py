#!/usr/bin/env python3
"""Generates the lexer step harnesses (DESIGN §4 C09): one harness per (mode, first-character class,
UTF-8 shape of the symbolic window).  Usage: lexer.gen.py <tier>; prints `//// FILE <name>` sections."""
import os, sys

KANI_ARGS = os.environ.get("KV_LEXER_KANI_ARGS", "--no-memory-safety-checks --no-assertion-reach-checks")
HERE = os.path.dirname(os.path.realpath(__file__))


def shapes(n, maxlen=3):
    if n == 0:
        return [[]]
    out = []
    for k in range(1, min(maxlen, n) + 1):
        for rest in shapes(n - k, maxlen):
            out.append([k] + rest)
    return out


CLASS_NAMES = {0: "whitespace", 1: "newline", 2: "comment", 3: "quote", 4: "digit", 5: "ascii id start",
               6: "underscore", 7: "symbol / other", 9: "any"}


def fill(shape, pad):
    lines, at = [], pad
    for k in shape:
        lines.append("    put%d(&mut buf, %d);" % (k, at))
        at += k
    return lines


def harness(name, mode, shape, pad, cls, tier, timeout, mem, stack_kind=0):
    n = sum(shape)
    total = pad + n
    shape_s = "".join(str(k) for k in shape)
    alpha = "28 ASCII letters (space tab LF CR # - ' \" { } \\ : r a s e x o u _ 0 1 . < = > ^ +), 2-byte slots in {U+00E9, U+0301}, 3-byte slots = U+5B57"
    fns = {
        "default": "TokenLexer::get_next_token default arm: consume_newline, consume_comment, consume_number, consume_id_or_keyword, parse_raw_string_start, consume_ignored, consume_symbol, advance_line*, advance_to_position",
        "literal": "TokenLexer::get_next_token in Literal mode: consume_string_literal, advance_to_position",
        "rawstart": "TokenLexer::get_next_token in RawStart mode: consume_raw_string_contents",
        "rawend": "TokenLexer::get_next_token in RawEnd mode: consume_raw_string_end",
        "format": "TokenLexer::get_next_token in TemplateExprFormat mode: consume_format_options",
    }[mode]
    out = []
    out.append("// @props C09 C06 C12 C11")
    out.append("// @tier %s" % tier)
    out.append("// @timeout %d" % timeout)
    out.append("// @mem %d" % mem)
    out.append("// @fns %s" % fns)
    out.append("// @bound one step from an arbitrary valid state; window of %d symbolic bytes, UTF-8 shape %s, after %d concrete pad byte(s); alphabet: %s; first character class: %s; mode: %s%s" % (
        n, shape, pad, alpha, CLASS_NAMES[cls], mode, " inside a template expression (stack [Literal(q), TemplateExpr|InlineMap])" if stack_kind else ""))
    out.append("// @assume pre-state: line, column, indent < 2^30 (no u32 overflow of positions); previous token in {None, NewLine, Dot, Whitespace, Id, StringLiteral}")
    out.append("// @assume tokens longer than the window are covered only through the unwinding bound")
    out.append("// @kani " + KANI_ARGS)
    out.append("#[kani::proof]")
    out.append("#[kani::unwind(%d)]" % max(n + 2, 4))
    out.append("fn %s() {" % name)
    out.append("    let mut buf = [b'x'; %d];" % total)
    out += fill(shape, pad)
    if cls != 9 and shape and shape[0] == 1:
        out.append("    kani::assume(class_ok(%d, buf[%d]));" % (cls, pad))
    call = {
        "default": "step_default(&buf, %d, %d);" % (stack_kind, pad),
        "literal": "step_literal(&buf, %d);" % pad,
        "rawstart": "step_raw_start(&buf, %d);" % pad,
        "rawend": "step_raw_end(&buf, %d);" % pad,
        "format": "step_format(&buf, %d);" % pad,
    }[mode]
    out.append("    " + call)
    out.append("}")
    out.append("")
    return "\n".join(out)


def main():
    common = open(os.path.join(HERE, "lexer_common.rs.in")).read()
    body = [common]
    # (n, tier, timeout, mem)
    plan = [(1, "quick", 600, 12), (2, "quick", 600, 12), (3, "quick", 900, 16), (4, "thorough", 2400, 24)]
    for n, tier, timeout, mem in plan:
        for shape in shapes(n):
            ss = "".join(str(k) for k in shape)
            pad = 1
            # default arm, empty stack: by first-character class when the first slot is ASCII
            if shape[0] == 1:
                for cls in range(8):
                    body.append(harness("c09_def0_c%d_s%s" % (cls, ss), "default", shape, pad, cls, tier, timeout, mem))
                # inside a template expression: quotes and symbols are what differs
                for cls in (3, 5, 7):
                    body.append(harness("c09_def1_c%d_s%s" % (cls, ss), "default", shape, pad, cls, tier, timeout, mem, 1))
            else:
                body.append(harness("c09_def0_c9_s%s" % ss, "default", shape, pad, 9, tier, timeout, mem))
            body.append(harness("c09_lit_s%s" % ss, "literal", shape, pad, 9, tier, timeout, mem))
            body.append(harness("c09_raws_s%s" % ss, "rawstart", shape, pad, 9, tier, timeout, mem))
            body.append(harness("c09_fmt_s%s" % ss, "format", shape, pad, 9, tier, timeout, mem))
            if n <= 3 and all(k == 1 for k in shape):
                body.append(harness("c09_rawe_s%s" % ss, "rawend", shape, pad, 9, tier, timeout, mem))
        # cursor at the very start of the source (pad 0): the initial state's successor
        if n <= 3:
            shape = [1] * n
            body.append(harness("c09_def0_c9_p0_s%s" % ("1" * n), "default", shape, 0, 9, tier, timeout, mem))
    print("//// FILE lexer_steps.rs")
    print("\n".join(body))


if __name__ == "__main__":
    main()
