// Kani harnesses woven into crates/bytecode/src/frame.rs: the compile-time register allocator.
// @weave crates/bytecode/src/frame.rs
#![allow(unused)]
use super::*;

fn stub_random_state() -> std::hash::RandomState {
    unsafe { std::mem::transmute([1u64, 2u64]) }
}

fn cid(n: u32) -> ConstantIndex {
    ConstantIndex::from(n)
}

// An arbitrary frame satisfying the representation invariant I (DESIGN §4 C05.frame):
//   register_stack == [tb, tb+1, .., tb+count-1],  tb + count <= 255,  count <= temporaries_used, tb + temporaries_used <= 255,
//   local_registers = [Allocated (self), up to 3 further entries], its length <= tb, ids pairwise distinct.
// Kept small where operations only touch the top of the stack: count <= 3; tb ranges over all of u8.
struct Pre {
    tb: u8,
    count: u8,
    used: u8,
    nlocals: usize,
    kinds: [u8; 3], // 0 Assigned, 1 Reserved, 2 Allocated
    ids: [u32; 3],
}

fn any_frame() -> (Frame, Pre) {
    any_frame_with(None)
}

// `fixed_nlocals`: a concrete number of locals (keeps Vec lengths concrete for symbolic execution)
fn any_frame_with(fixed_nlocals: Option<usize>) -> (Frame, Pre) {
    let tb: u8 = kani::any();
    let count: u8 = kani::any();
    let used: u8 = kani::any();
    kani::assume(count <= 3 && tb as u32 + count as u32 <= 255);
    kani::assume(used >= count && tb as u32 + used as u32 <= 255);
    let nlocals: usize = match fixed_nlocals {
        Some(n) => n,
        None => kani::any(),
    };
    kani::assume(nlocals <= 3 && 1 + nlocals <= tb as usize);
    let mut kinds = [0u8; 3];
    let mut ids = [0u32; 3];
    let mut local_registers = Vec::with_capacity(8);
    local_registers.push(LocalRegister::Allocated);
    let mut i = 0;
    while i < 3 {
        let k: u8 = kani::any();
        let id: u32 = kani::any();
        kani::assume(k < 3 && id < 5);
        kinds[i] = k;
        ids[i] = id;
        if i < nlocals {
            local_registers.push(match k {
                0 => LocalRegister::Assigned(cid(id)),
                1 => LocalRegister::Reserved(cid(id), Vec::new()),
                _ => LocalRegister::Allocated,
            });
        }
        i += 1;
    }
    // an id owns at most one register
    let named = |j: usize| j < nlocals && kinds[j] != 2;
    kani::assume(!(named(0) && named(1) && ids[0] == ids[1]));
    kani::assume(!(named(0) && named(2) && ids[0] == ids[2]));
    kani::assume(!(named(1) && named(2) && ids[1] == ids[2]));
    let mut register_stack = Vec::with_capacity(8);
    let mut j = 0;
    while j < 3 {
        if j < count {
            register_stack.push(tb + j);
        }
        j += 1;
    }
    let frame = Frame {
        register_stack,
        local_registers,
        temporary_base: tb,
        temporary_count: count,
        temporaries_used_in_frame: used,
        ..Default::default()
    };
    (frame, Pre { tb, count, used, nlocals, kinds, ids })
}

fn invariant(f: &Frame) -> bool {
    let tb = f.temporary_base as usize;
    let count = f.temporary_count as usize;
    if f.register_stack.len() != count || tb + count > 255 {
        return false;
    }
    let mut i = 0;
    while i < count {
        if f.register_stack[i] as usize != tb + i {
            return false;
        }
        i += 1;
    }
    f.temporaries_used_in_frame as usize >= count && tb + f.temporaries_used_in_frame as usize <= 255
}

// @props C05 C06
// @fns Frame::push_register, Frame::pop_register, Frame::next_temporary_register, Frame::available_registers_count, Frame::registers_used, Frame::peek_register, Frame::register_stack_size
// @bound one operation from an arbitrary frame satisfying the invariant: temporary_base over all of u8, temporary_count <= 3 (operations only touch the top of the stack), so tb + count reaches 255
// @assume representation invariant I of the register stack (established by Frame::new, preserved by every operation: asserted here)
// @kani --no-memory-safety-checks --no-assertion-reach-checks
// @mem 10
#[kani::proof]
#[kani::unwind(6)]
#[kani::stub(std::hash::RandomState::new, stub_random_state)]
fn c05_frame_temporaries() {
    let (mut f, pre) = any_frame();
    assert!(invariant(&f), "C05.frame: the generated pre-state satisfies the invariant");
    let next = f.next_temporary_register();
    assert!(next as u32 == pre.tb as u32 + pre.count as u32, "C05.frame: next_temporary_register is tb + count");
    assert!(f.available_registers_count() == 255 - next, "C05.frame: available registers");
    assert!(f.registers_used() as u32 == pre.tb as u32 + pre.used as u32, "C05.frame: registers_used is tb + high-water mark");
    let op: u8 = kani::any();
    kani::assume(op < 3);
    match op {
        0 => match f.push_register() {
            Ok(r) => {
                assert!(r == next && r >= pre.tb && r < 255, "C05.frame: push hands out the next temporary register, never 255 and never a local");
                assert!(f.temporary_count == pre.count + 1 && f.register_stack.last() == Some(&r), "C05.frame: push records the register");
                assert!(f.registers_used() > r, "C05.frame: the announced register count covers every register handed out");
            }
            Err(FrameError::StackOverflow) => {
                assert!(next == 255, "C05.frame: StackOverflow only when the register file is exhausted");
                assert!(f.temporary_count == pre.count, "C05.frame: a failed push changes nothing");
            }
            Err(_) => assert!(false, "C05.frame: push only fails with StackOverflow"),
        },
        1 => match f.pop_register() {
            Ok(r) => {
                assert!(pre.count > 0 && r == pre.tb + pre.count - 1 && f.temporary_count == pre.count - 1, "C05.frame: pop returns the most recent push");
            }
            Err(FrameError::EmptyRegisterStack) => assert!(pre.count == 0, "C05.frame: pop only fails on an empty stack"),
            Err(_) => assert!(false, "C05.frame: pop only fails with EmptyRegisterStack"),
        },
        _ => {
            let n: usize = kani::any();
            kani::assume(n < pre.count as usize);
            match f.peek_register(n) {
                Ok(r) => assert!(r == pre.tb + pre.count - 1 - n as u8, "C05.frame: peek(n) is the n-th register from the top"),
                Err(_) => assert!(false, "C05.frame: peek inside the stack succeeds"),
            }
        }
    }
    assert!(invariant(&f), "C05.frame: every operation preserves the invariant");
    assert!(f.temporary_base == pre.tb && f.local_registers.len() == 1 + pre.nlocals, "C05.frame: temporaries never touch the locals");
    kani::cover!(op == 0 && next == 254, "push of register 254");
    kani::cover!(op == 0 && next == 255, "push on an exhausted register file");
    kani::cover!(op == 1 && pre.count == 3, "pop from a stack of three");
    std::mem::forget(f);
}

// @props C05 C06
// @fns Frame::truncate_register_stack
// @bound arbitrary frame (as above), target size 0..=count+1
// @kani --no-memory-safety-checks --no-assertion-reach-checks
// @mem 10
#[kani::proof]
#[kani::unwind(6)]
#[kani::stub(std::hash::RandomState::new, stub_random_state)]
fn c05_frame_truncate() {
    let (mut f, pre) = any_frame();
    let k: usize = kani::any();
    kani::assume(k <= pre.count as usize + 1);
    match f.truncate_register_stack(k) {
        Ok(()) => {
            let want = if k < pre.count as usize { k } else { pre.count as usize };
            assert!(f.register_stack.len() == want && f.temporary_count as usize == want, "C05.frame: truncate pops down to the requested size");
        }
        Err(_) => assert!(false, "C05.frame: truncate never fails on a valid frame"),
    }
    assert!(invariant(&f), "C05.frame: truncate preserves the invariant");
    kani::cover!(k == 0 && pre.count == 3, "truncate three registers away");
    std::mem::forget(f);
}

fn owner_count(f: &Frame, id: u32) -> usize {
    let mut n = 0;
    let mut i = 0;
    while i < f.local_registers.len() {
        match &f.local_registers[i] {
            LocalRegister::Assigned(x) | LocalRegister::Reserved(x, _) if *x == cid(id) => n += 1,
            _ => {}
        }
        i += 1;
    }
    n
}

// @props C05 C06
// @fns Frame::assign_local_register, Frame::reserve_local_register, Frame::commit_local_register, Frame::get_local_assigned_register, Frame::get_local_assigned_or_reserved_register
// @timeout 1500
// @bound one operation from an arbitrary frame: self + 0, 1, 2 or 3 locals (concrete count per block) in any state (Assigned / Reserved / Allocated) with ids from {0..4}, temporary_base over all of u8, id argument from {0..4}
// @kani --no-memory-safety-checks --no-assertion-reach-checks
// @mem 10
#[kani::proof]
#[kani::unwind(7)]
#[kani::stub(std::hash::RandomState::new, stub_random_state)]
fn c05_frame_locals() {
    frame_locals_case(0);
    frame_locals_case(1);
    frame_locals_case(2);
    frame_locals_case(3);
}

fn frame_locals_case(nlocals: usize) {
    let (mut f, pre) = any_frame_with(Some(nlocals));
    let id: u32 = kani::any();
    kani::assume(id < 5);
    // where does `id` live before the call?
    let mut at: Option<(usize, u8)> = None;
    let mut i = 0;
    while i < 3 {
        if i < pre.nlocals && pre.kinds[i] != 2 && pre.ids[i] == id {
            at = Some((i + 1, pre.kinds[i]));
        }
        i += 1;
    }
    let len0 = 1 + pre.nlocals;
    assert!(f.get_local_assigned_register(cid(id)) == match at { Some((r, 0)) => Some(r as u8), _ => None }, "C05.frame: lookup of an assigned local");
    let op: u8 = kani::any();
    kani::assume(op < 3);
    match op {
        0 | 1 => {
            let r = if op == 0 { f.assign_local_register(cid(id)) } else { f.reserve_local_register(cid(id)) };
            match (r, at) {
                (Ok(r), Some((pos, kind))) => {
                    assert!(r as usize == pos && f.local_registers.len() == len0, "C05.frame: a known id keeps its register");
                    let want_assigned = kind == 0 || op == 0;
                    assert!(matches!(&f.local_registers[pos], LocalRegister::Assigned(x) if *x == cid(id)) == want_assigned, "C05.frame: assigning commits a reservation, reserving keeps the state");
                }
                (Ok(r), None) => {
                    assert!(r as usize == len0 && f.local_registers.len() == len0 + 1, "C05.frame: a new local takes the next local register");
                    assert!((r as usize) < pre.tb as usize, "C05.frame: a local register is always below the temporaries");
                }
                (Err(FrameError::LocalRegisterOverflow), None) => {
                    assert!(len0 >= pre.tb as usize, "C05.frame: LocalRegisterOverflow only when the locals are exhausted");
                }
                (Err(_), _) => assert!(false, "C05.frame: no other error for assign/reserve"),
            }
            assert!(owner_count(&f, id) == 1, "C05.frame: an id owns exactly one register");
        }
        _ => {
            let reg: u8 = kani::any();
            kani::assume(reg < 6);
            let r = f.commit_local_register(reg);
            let kind = if reg == 0 || reg as usize >= len0 { 2 } else { pre.kinds[reg as usize - 1] };
            match r {
                Ok(ops) => {
                    assert!(kind != 2 && (reg as usize) < len0, "C05.frame: only named locals can be committed");
                    assert!(matches!(&f.local_registers[reg as usize], LocalRegister::Assigned(_)), "C05.frame: a committed register is assigned");
                    std::mem::forget(ops);
                }
                Err(FrameError::UnreservedRegister(x)) => assert!(x == reg && (kind == 2 || reg as usize >= len0), "C05.frame: committing an unnamed or missing register is an error"),
                Err(_) => assert!(false, "C05.frame: no other error for commit"),
            }
            assert!(f.local_registers.len() == len0, "C05.frame: commit does not add registers");
        }
    }
    assert!(f.temporary_base == pre.tb && f.temporary_count == pre.count && invariant(&f), "C05.frame: locals never touch the temporaries");
    kani::cover!(op == 0 && at.is_none() && len0 == pre.tb as usize, "assign when the locals are exhausted");
    kani::cover!(op == 0 && matches!(at, Some((_, 1))), "assign commits a reserved register");
    kani::cover!(op == 1 && at.is_none() && len0 < pre.tb as usize, "reserve a fresh register");
    std::mem::forget(f);
}

fn frame_new_case(nargs: usize, ncaps: usize) {
    let local_count: u8 = kani::any();
    let mut kinds = [0u8; 3];
    let mut i = 0;
    while i < 3 {
        let k: u8 = kani::any();
        kani::assume(k < 3);
        kinds[i] = k;
        i += 1;
    }
    let mk = |i: usize| match kinds[i] {
        0 => Arg::Local(cid(10 + i as u32)),
        1 => Arg::Unpacked(cid(10 + i as u32)),
        _ => Arg::Placeholder,
    };
    let args = [mk(0), mk(1), mk(2)];
    let caps = [cid(20), cid(21), cid(22)];
    let mut named = 0;
    let mut placeholders = 0;
    let mut j = 0;
    while j < 3 {
        if j < nargs {
            if kinds[j] == 2 { placeholders += 1 } else { named += 1 }
        }
        j += 1;
    }
    kani::assume(local_count as usize >= named);
    let total = 1 + local_count as usize + ncaps + placeholders;
    match Frame::new(local_count, &args[..nargs], &caps[..ncaps], None, false) {
        Ok(f) => {
            assert!(total <= 255 && f.temporary_base as usize == total, "C05.fnew: temporary_base is 1 + locals + captures + placeholders, without wrapping");
            assert!(f.temporary_count == 0 && f.register_stack.is_empty() && f.temporaries_used_in_frame == 0, "C05.fnew: no temporaries in a fresh frame");
            assert!(f.local_registers.len() == 1 + nargs + ncaps && f.local_registers.len() <= total, "C05.fnew: one register for self, each arg and each capture, all below the temporaries");
            // layout: [self][Local / Placeholder args in order][captures in order][Unpacked args in order]
            let mut pos = 1;
            let mut a = 0;
            while a < 3 {
                if a < nargs && kinds[a] != 1 {
                    let ok = match (&f.local_registers[pos], kinds[a]) {
                        (LocalRegister::Assigned(x), 0) => *x == cid(10 + a as u32),
                        (LocalRegister::Allocated, 2) => true,
                        _ => false,
                    };
                    assert!(ok && pos == a + 1 - unpacked_before(&kinds, a, nargs), "C05.fnew: top-level args take registers 1.. in order");
                    pos += 1;
                }
                a += 1;
            }
            let mut c = 0;
            while c < 3 {
                if c < ncaps {
                    assert!(matches!(&f.local_registers[pos], LocalRegister::Assigned(x) if *x == cid(20 + c as u32)), "C05.fnew: captures follow the args in order");
                    pos += 1;
                }
                c += 1;
            }
            let mut u = 0;
            while u < 3 {
                if u < nargs && kinds[u] == 1 {
                    assert!(matches!(&f.local_registers[pos], LocalRegister::Assigned(x) if *x == cid(10 + u as u32)), "C05.fnew: unpacked args come last, in order");
                    pos += 1;
                }
                u += 1;
            }
            assert!(matches!(&f.local_registers[0], LocalRegister::Allocated), "C05.fnew: register 0 is self");
            std::mem::forget(f);
        }
        Err(FrameError::LocalRegisterOverflow) => assert!(total > 255, "C05.fnew: an error only when more than 255 registers would be needed"),
        Err(_) => assert!(false, "C05.fnew: no other error"),
    }
    kani::cover!(total == 255, "exactly 255");
    kani::cover!(total == 256, "one too many");
}

// @props C05 C06
// @fns Frame::new
// @bound any local_count (u8); (args, captures) counts (0,0), (1,3), (3,2) and (3,3) with every mix of arg kinds (Local / Unpacked / Placeholder): every sum 1..=262 is reached. Slice lengths are concrete per block (symbolic lengths: out of memory at 30 GB)
// @assume local_count >= number of named args (the parser counts args as locals)
// @kani --no-memory-safety-checks --no-assertion-reach-checks
// @mem 10
// @timeout 1200
#[kani::proof]
#[kani::unwind(6)]
#[kani::stub(std::hash::RandomState::new, stub_random_state)]
fn c05_frame_new() {
    frame_new_case(0, 0);
    frame_new_case(1, 3);
    frame_new_case(3, 2);
    frame_new_case(3, 3);
}

fn unpacked_before(kinds: &[u8; 3], a: usize, nargs: usize) -> usize {
    let mut n = 0;
    let mut i = 0;
    while i < a {
        if i < nargs && kinds[i] == 1 {
            n += 1;
        }
        i += 1;
    }
    n
}
