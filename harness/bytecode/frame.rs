// Kani harnesses woven into crates/bytecode/src/frame.rs: the compile-time register allocator.
// @weave crates/bytecode/src/frame.rs
#![allow(unused)]
use super::*;

fn stub_random_state() -> std::hash::RandomState {
    unsafe { std::mem::transmute([1u64, 2u64]) }
}

fn cid(n: u32) -> ConstantIndex {
    ConstantIndex::from(n)
}

// An arbitrary frame satisfying the representation invariant I (DESIGN §4 C05.frame):
//   register_stack == [tb, tb+1, .., tb+count-1],  tb + count <= 255,  count <= temporaries_used, tb + temporaries_used <= 255,
//   local_registers = [Allocated (self), up to 3 further entries], its length <= tb, ids pairwise distinct.
// Kept small where operations only touch the top of the stack: count <= 3; tb ranges over all of u8.
struct Pre {
    tb: u8,
    count: u8,
    used: u8,
    nlocals: usize,
    kinds: [u8; 3], // 0 Assigned, 1 Reserved, 2 Allocated
    ids: [u32; 3],
}

fn any_frame() -> (Frame, Pre) {
    any_frame_with(None, None)
}

// `fixed_nlocals` / `fixed_kinds`: concrete number and states of the locals. Heap shapes must be concrete for CBMC:
// with symbolic states the length of a Reserved entry's deferred-op list is read from symbolic memory and every
// Vec operation forks into its reallocation path (out of memory at 30 GB); ids, bases and counters stay symbolic.
fn any_frame_with(fixed_nlocals: Option<usize>, fixed_kinds: Option<[u8; 3]>) -> (Frame, Pre) {
    any_frame_full(fixed_nlocals, fixed_kinds, None)
}

fn any_frame_full(fixed_nlocals: Option<usize>, fixed_kinds: Option<[u8; 3]>, fixed_ids: Option<[u32; 3]>) -> (Frame, Pre) {
    let tb: u8 = kani::any();
    let count: u8 = kani::any();
    let used: u8 = kani::any();
    kani::assume(count <= 3 && tb as u32 + count as u32 <= 255);
    kani::assume(used >= count && tb as u32 + used as u32 <= 255);
    let nlocals: usize = match fixed_nlocals {
        Some(n) => n,
        None => kani::any(),
    };
    kani::assume(nlocals <= 3 && 1 + nlocals <= tb as usize);
    let mut kinds = [0u8; 3];
    let mut ids = [0u32; 3];
    let mut local_registers = Vec::with_capacity(8);
    local_registers.push(LocalRegister::Allocated);
    let mut i = 0;
    while i < 3 {
        let k: u8 = match fixed_kinds {
            Some(ks) => ks[i],
            None => kani::any(),
        };
        let id: u32 = match fixed_ids {
            Some(x) => x[i],
            None => kani::any(),
        };
        kani::assume(k < 3 && id < 5);
        kinds[i] = k;
        ids[i] = id;
        if i < nlocals {
            local_registers.push(match k {
                0 => LocalRegister::Assigned(cid(id)),
                1 => LocalRegister::Reserved(cid(id), Vec::new()),
                _ => LocalRegister::Allocated,
            });
        }
        i += 1;
    }
    // an id owns at most one register
    let named = |j: usize| j < nlocals && kinds[j] != 2;
    kani::assume(!(named(0) && named(1) && ids[0] == ids[1]));
    kani::assume(!(named(0) && named(2) && ids[0] == ids[2]));
    kani::assume(!(named(1) && named(2) && ids[1] == ids[2]));
    let mut register_stack = Vec::with_capacity(8);
    let mut j = 0;
    while j < 3 {
        if j < count {
            register_stack.push(tb + j);
        }
        j += 1;
    }
    let frame = Frame {
        register_stack,
        local_registers,
        temporary_base: tb,
        temporary_count: count,
        temporaries_used_in_frame: used,
        ..Default::default()
    };
    (frame, Pre { tb, count, used, nlocals, kinds, ids })
}

fn invariant(f: &Frame) -> bool {
    let tb = f.temporary_base as usize;
    let count = f.temporary_count as usize;
    if f.register_stack.len() != count || tb + count > 255 {
        return false;
    }
    let mut i = 0;
    while i < count {
        if f.register_stack[i] as usize != tb + i {
            return false;
        }
        i += 1;
    }
    f.temporaries_used_in_frame as usize >= count && tb + f.temporaries_used_in_frame as usize <= 255
}

// @props C05 C06
// @fns Frame::push_register, Frame::pop_register, Frame::next_temporary_register, Frame::available_registers_count, Frame::registers_used, Frame::peek_register, Frame::register_stack_size
// @bound one operation from an arbitrary frame satisfying the invariant: temporary_base over all of u8, temporary_count <= 3 (operations only touch the top of the stack), so tb + count reaches 255
// @assume representation invariant I of the register stack (established by Frame::new, preserved by every operation: asserted here)
// @kani --no-memory-safety-checks --no-assertion-reach-checks
// @mem 10
// @timeout 1200
#[kani::proof]
#[kani::unwind(6)]
#[kani::stub(std::hash::RandomState::new, stub_random_state)]
fn c05_frame_temporaries() {
    let (mut f, pre) = any_frame_with(Some(2), Some([0, 1, 2]));
    assert!(invariant(&f), "C05.frame: the generated pre-state satisfies the invariant");
    let next = f.next_temporary_register();
    assert!(next as u32 == pre.tb as u32 + pre.count as u32, "C05.frame: next_temporary_register is tb + count");
    assert!(f.available_registers_count() == 255 - next, "C05.frame: available registers");
    assert!(f.registers_used() as u32 == pre.tb as u32 + pre.used as u32, "C05.frame: registers_used is tb + high-water mark");
    let op: u8 = kani::any();
    kani::assume(op < 3);
    match op {
        0 => match f.push_register() {
            Ok(r) => {
                assert!(r == next && r >= pre.tb && r < 255, "C05.frame: push hands out the next temporary register, never 255 and never a local");
                assert!(f.temporary_count == pre.count + 1 && f.register_stack.last() == Some(&r), "C05.frame: push records the register");
                assert!(f.registers_used() > r, "C05.frame: the announced register count covers every register handed out");
            }
            Err(FrameError::StackOverflow) => {
                assert!(next == 255, "C05.frame: StackOverflow only when the register file is exhausted");
                assert!(f.temporary_count == pre.count, "C05.frame: a failed push changes nothing");
            }
            Err(_) => assert!(false, "C05.frame: push only fails with StackOverflow"),
        },
        1 => match f.pop_register() {
            Ok(r) => {
                assert!(pre.count > 0 && r == pre.tb + pre.count - 1 && f.temporary_count == pre.count - 1, "C05.frame: pop returns the most recent push");
            }
            Err(FrameError::EmptyRegisterStack) => assert!(pre.count == 0, "C05.frame: pop only fails on an empty stack"),
            Err(_) => assert!(false, "C05.frame: pop only fails with EmptyRegisterStack"),
        },
        _ => {
            let n: usize = kani::any();
            kani::assume(n < pre.count as usize);
            match f.peek_register(n) {
                Ok(r) => assert!(r == pre.tb + pre.count - 1 - n as u8, "C05.frame: peek(n) is the n-th register from the top"),
                Err(_) => assert!(false, "C05.frame: peek inside the stack succeeds"),
            }
        }
    }
    assert!(invariant(&f), "C05.frame: every operation preserves the invariant");
    assert!(f.temporary_base == pre.tb && f.local_registers.len() == 1 + pre.nlocals, "C05.frame: temporaries never touch the locals");
    kani::cover!(op == 0 && next == 254, "push of register 254");
    kani::cover!(op == 0 && next == 255, "push on an exhausted register file");
    kani::cover!(op == 1 && pre.count == 3, "pop from a stack of three");
    std::mem::forget(f);
}

// @props C05 C06
// @fns Frame::truncate_register_stack
// @bound arbitrary frame (as above), target size 0..=count+1
// @kani --no-memory-safety-checks --no-assertion-reach-checks
// @mem 10
// @timeout 1200
#[kani::proof]
#[kani::unwind(6)]
#[kani::stub(std::hash::RandomState::new, stub_random_state)]
fn c05_frame_truncate() {
    let (mut f, pre) = any_frame_with(Some(2), Some([0, 1, 2]));
    let k: usize = kani::any();
    kani::assume(k <= pre.count as usize + 1);
    match f.truncate_register_stack(k) {
        Ok(()) => {
            let want = if k < pre.count as usize { k } else { pre.count as usize };
            assert!(f.register_stack.len() == want && f.temporary_count as usize == want, "C05.frame: truncate pops down to the requested size");
        }
        Err(_) => assert!(false, "C05.frame: truncate never fails on a valid frame"),
    }
    assert!(invariant(&f), "C05.frame: truncate preserves the invariant");
    kani::cover!(k == 0 && pre.count == 3, "truncate three registers away");
    std::mem::forget(f);
}

fn owner_count(f: &Frame, id: u32) -> usize {
    let mut n = 0;
    let mut i = 0;
    while i < f.local_registers.len() {
        match &f.local_registers[i] {
            LocalRegister::Assigned(x) | LocalRegister::Reserved(x, _) if *x == cid(id) => n += 1,
            _ => {}
        }
        i += 1;
    }
    n
}

// DROPPED (DESIGN §10.3): one-step harnesses for assign_local_register / reserve_local_register / commit_local_register.
// Three shapes were tried (symbolic local states; concrete states with symbolic ids; everything concrete except the
// bases and counters, down to three blocks): each ran out of memory at 24-30 GB. CBMC's symbolic execution does not
// propagate constants through the heap buffer of `local_registers`, so every arm of the `LocalRegister` match is
// explored whatever the state, including `deferred_ops.to_vec()` and its drop, whose loops over `Vec<DeferredOp>`
// (each element owning a `Vec<u8>`) are unrolled with symbolic lengths. The local-register limit is still covered
// from the other side by c05_frame_new (locals + captures + placeholders never exceed 255 without an error).

// kinds: 0 Local, 1 Unpacked, 2 Placeholder - concrete per case (see any_frame_with for why)
fn frame_new_case(nargs: usize, ncaps: usize, kinds: [u8; 3]) {
    let local_count: u8 = kani::any();
    let mk = |i: usize| match kinds[i] {
        0 => Arg::Local(cid(10 + i as u32)),
        1 => Arg::Unpacked(cid(10 + i as u32)),
        _ => Arg::Placeholder,
    };
    let args = [mk(0), mk(1), mk(2)];
    let caps = [cid(20), cid(21), cid(22)];
    let mut named = 0;
    let mut placeholders = 0;
    let mut j = 0;
    while j < 3 {
        if j < nargs {
            if kinds[j] == 2 { placeholders += 1 } else { named += 1 }
        }
        j += 1;
    }
    kani::assume(local_count as usize >= named);
    let total = 1 + local_count as usize + ncaps + placeholders;
    match Frame::new(local_count, &args[..nargs], &caps[..ncaps], None, false) {
        Ok(f) => {
            assert!(total <= 255 && f.temporary_base as usize == total, "C05.fnew: temporary_base is 1 + locals + captures + placeholders, without wrapping");
            assert!(f.temporary_count == 0 && f.register_stack.is_empty() && f.temporaries_used_in_frame == 0, "C05.fnew: no temporaries in a fresh frame");
            assert!(f.local_registers.len() == 1 + nargs + ncaps && f.local_registers.len() <= total, "C05.fnew: one register for self, each arg and each capture, all below the temporaries");
            // layout: [self][Local / Placeholder args in order][captures in order][Unpacked args in order]
            let mut pos = 1;
            let mut a = 0;
            while a < 3 {
                if a < nargs && kinds[a] != 1 {
                    let ok = match (&f.local_registers[pos], kinds[a]) {
                        (LocalRegister::Assigned(x), 0) => *x == cid(10 + a as u32),
                        (LocalRegister::Allocated, 2) => true,
                        _ => false,
                    };
                    assert!(ok && pos == a + 1 - unpacked_before(&kinds, a, nargs), "C05.fnew: top-level args take registers 1.. in order");
                    pos += 1;
                }
                a += 1;
            }
            let mut c = 0;
            while c < 3 {
                if c < ncaps {
                    assert!(matches!(&f.local_registers[pos], LocalRegister::Assigned(x) if *x == cid(20 + c as u32)), "C05.fnew: captures follow the args in order");
                    pos += 1;
                }
                c += 1;
            }
            let mut u = 0;
            while u < 3 {
                if u < nargs && kinds[u] == 1 {
                    assert!(matches!(&f.local_registers[pos], LocalRegister::Assigned(x) if *x == cid(10 + u as u32)), "C05.fnew: unpacked args come last, in order");
                    pos += 1;
                }
                u += 1;
            }
            assert!(matches!(&f.local_registers[0], LocalRegister::Allocated), "C05.fnew: register 0 is self");
            std::mem::forget(f);
        }
        Err(FrameError::LocalRegisterOverflow) => assert!(total > 255, "C05.fnew: an error only when more than 255 registers would be needed"),
        Err(_) => assert!(false, "C05.fnew: no other error"),
    }
    kani::cover!(total == 255, "exactly 255");
    kani::cover!(total == 256, "one too many");
}

// @props C05 C06
// @fns Frame::new
// @bound any local_count (u8); six concrete argument lists ([], [P]+3 captures, [L,P], [L,U,P]+2, [P,P,P]+3, [U,L,U]+3; L local, U unpacked, P placeholder): every sum 1..=262 is reached; the register layout is checked for these orders
// @assume local_count >= number of named args (the parser counts args as locals)
// @kani --no-memory-safety-checks --no-assertion-reach-checks
// @mem 10
// @timeout 1200
#[kani::proof]
#[kani::unwind(6)]
#[kani::stub(std::hash::RandomState::new, stub_random_state)]
fn c05_frame_new() {
    frame_new_case(0, 0, [0, 0, 0]);
    frame_new_case(1, 3, [2, 0, 0]);
    frame_new_case(2, 0, [0, 2, 0]);
    frame_new_case(3, 2, [0, 1, 2]);
    frame_new_case(3, 3, [2, 2, 2]);
    frame_new_case(3, 3, [1, 0, 1]);
}

fn unpacked_before(kinds: &[u8; 3], a: usize, nargs: usize) -> usize {
    let mut n = 0;
    let mut i = 0;
    while i < a {
        if i < nargs && kinds[i] == 1 {
            n += 1;
        }
        i += 1;
    }
    n
}
