// Kani harnesses woven into crates/bytecode/src/chunk.rs
// @weave crates/bytecode/src/chunk.rs
#![allow(unused)]
use super::*;
use koto_parser::Position;

// spans drawn from a small domain so that equal neighbours (the compression case) are frequent
fn any_span() -> Span {
    let a: u8 = kani::any();
    let b: u8 = kani::any();
    kani::assume(a < 3 && b < 3);
    Span {
        start: Position { line: a as u32, column: 0 },
        end: Position { line: a as u32, column: b as u32 },
    }
}

// @props C12
// @fns DebugInfo::push, DebugInfo::get_source_span (the ip -> source span map behind runtime error locations and `debug` line prefixes)
// @bound up to 4 pushes with strictly increasing instruction pointers (push_op records the current code length before each instruction, instructions are at least two bytes long) and spans from a 9-element domain; query ip over all u32
// @assume ips are pushed in strictly increasing order (Compiler::push_op pushes bytes.len() before appending at least two bytes)
// @kani --no-memory-safety-checks --no-assertion-reach-checks
#[kani::proof]
#[kani::unwind(7)]
fn c12_debug_info_lookup() {
    let n: usize = kani::any();
    kani::assume(n <= 4);
    let mut ips = [0u32; 4];
    let mut spans = [Span::default(); 4];
    let mut info = DebugInfo::default();
    let mut i = 0;
    while i < 4 {
        let ip: u32 = kani::any();
        let span = any_span();
        if i < n {
            kani::assume(i == 0 || ip > ips[i - 1]);
            ips[i] = ip;
            spans[i] = span;
            info.push(ip, span);
        }
        i += 1;
    }
    let q: u32 = kani::any();
    // oracle: linear scan over the uncompressed push log
    let mut want: Option<Span> = None;
    let mut j = 0;
    while j < 4 {
        if j < n && ips[j] <= q {
            want = Some(spans[j]);
        }
        j += 1;
    }
    assert!(info.get_source_span(q) == want, "C12.map: an instruction maps to the span of the last push at or before it, whatever was merged");
    assert!(info.source_map.len() <= n, "C12.map: the map never has more entries than pushes");
    kani::cover!(n == 4 && info.source_map.len() == 2, "two of four pushes merged away");
    kani::cover!(want.is_none() && n > 0, "query before the first instruction");
    kani::cover!(n == 4 && info.source_map.len() == 4 && want == Some(spans[2]), "query inside the third of four entries");
}
