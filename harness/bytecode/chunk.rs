// Kani harnesses woven into crates/bytecode/src/chunk.rs
// @weave crates/bytecode/src/chunk.rs
#![allow(unused)]
use super::*;
use koto_parser::Position;

// spans drawn from a small domain so that equal neighbours (the compression case) are frequent
fn any_span() -> Span {
    let a: u8 = kani::any();
    let b: u8 = kani::any();
    kani::assume(a < 3 && b < 3);
    Span {
        start: Position { line: a as u32, column: 0 },
        end: Position { line: a as u32, column: b as u32 },
    }
}

fn lookup_case(n: usize) {
    let mut ips = [0u32; 4];
    let mut spans = [Span::default(); 4];
    let mut info = DebugInfo::default();
    info.source_map.reserve(4); // no reallocation during the pushes
    let mut i = 0;
    while i < n {
        let ip: u32 = kani::any();
        let span = any_span();
        kani::assume(i == 0 || ip > ips[i - 1]);
        ips[i] = ip;
        spans[i] = span;
        info.push(ip, span);
        i += 1;
    }
    let q: u32 = kani::any();
    // oracle: linear scan over the uncompressed push log
    let mut want: Option<Span> = None;
    let mut j = 0;
    while j < n {
        if ips[j] <= q {
            want = Some(spans[j]);
        }
        j += 1;
    }
    assert!(info.get_source_span(q) == want, "C12.map: an instruction maps to the span of the last push at or before it, whatever was merged");
    assert!(info.source_map.len() <= n, "C12.map: the map never has more entries than pushes");
    kani::cover!(n >= 2 && info.source_map.len() < n, "a push merged away");
    kani::cover!(want.is_none() && n > 0, "query before the first instruction");
    std::mem::forget(info);
}

// @props C12
// @fns DebugInfo::push, DebugInfo::get_source_span (the ip -> source span map behind runtime error locations and `debug` line prefixes)
// @bound 0, 1, 2, 3 and 4 pushes (concrete count per block) with strictly increasing instruction pointers (push_op records the current code length before each instruction, instructions are at least two bytes long) and spans from a 9-element domain, so that equal neighbours (the compression case) are frequent; query ip over all u32
// @assume ips are pushed in strictly increasing order (Compiler::push_op pushes bytes.len() before appending at least two bytes)
// @kani --no-memory-safety-checks --no-assertion-reach-checks
// @timeout 1200
// @mem 10
#[kani::proof]
#[kani::unwind(6)]
fn c12_debug_info_lookup() {
    lookup_case(0);
    lookup_case(1);
    lookup_case(2);
    lookup_case(3);
    lookup_case(4);
}
