// Kani harnesses woven into crates/bytecode/src/instruction_reader.rs
// @weave crates/bytecode/src/instruction_reader.rs
#![allow(unused)]
use super::*;
use koto_parser::ConstantIndex;

fn stub_format(_args: std::fmt::Arguments<'_>) -> String {
    String::new()
}

fn stub_random_state() -> std::hash::RandomState {
    unsafe { std::mem::transmute([1u64, 2u64]) }
}

const N: usize = 9;

// LEB128 as the compiler's push_var_u32 writes it: 7 bits per byte, least significant group first, bit 7 = more follows.
// Returns (value, bytes consumed), or None when the buffer ends inside the number.
fn leb(b: &[u8], at: usize) -> Option<(u32, usize)> {
    let mut value: u32 = 0;
    let mut i = 0;
    while i < 5 {
        if at + i >= b.len() {
            return None;
        }
        let byte = b[at + i];
        value |= ((byte & 0x7f) as u32) << (7 * i as u32);
        if byte & 0x80 == 0 {
            return Some((value, i + 1));
        }
        i += 1;
    }
    None
}

// @props C05 C06
// @fns InstructionReader::next: all 256 opcodes, every decoder arm, the get_u8 / get_u8_array / get_u16 / get_var_u32 macros, out_of_bounds_access_error; operand layout of the jump, constant-load, Function and StringPush instructions against the byte layout the compiler's encoders are checked to produce (c05_varint_encode, c05_jump_*, c05_string_format_flags)
// @bound buffers of 0..=9 arbitrary bytes, reader at ip 0; bytes 5 and 6 carry no continuation bit, so var-ints are at most 4 bytes after op + register (5 with the first-byte form of SequenceStart): constant indices below 2^28 (the fifth var-int byte is covered on the encoder side by c05_varint_encode)
// @assume std::fmt::format stubbed (error messages are not the subject); var-int operands are at most 5 bytes (longer ones are never emitted by the compiler and would overflow the decoder's shift)
// @timeout 5400
// @mem 36
// @tier thorough
#[kani::proof]
#[kani::unwind(11)]
#[kani::stub(std::fmt::format, stub_format)]
#[kani::stub(std::hash::RandomState::new, stub_random_state)]
fn c05_decode_total() {
    let len: usize = kani::any();
    kani::assume(len <= N);
    let mut copy = [0u8; N];
    let mut bytes: Vec<u8> = Vec::with_capacity(N);
    let mut i = 0;
    while i < N {
        let b: u8 = kani::any();
        if i == 5 || i == 6 {
            kani::assume(b & 0x80 == 0);
        }
        if i < len {
            bytes.push(b);
            copy[i] = b;
        }
        i += 1;
    }
    let b = &copy[..len];
    let chunk = Chunk { bytes, ..Default::default() };
    let mut reader = InstructionReader::new(Ptr::from(chunk));
    let instruction = reader.next();
    let ip = reader.ip;
    match &instruction {
        None => assert!(len < 2 && ip == 0, "C05.decode: the reader only stops when fewer than two bytes remain"),
        Some(ins) => {
            assert!(ip >= 2 && ip <= len, "C05.decode: decoding stays inside the buffer and consumes at least the op and its first operand");
            let le = |x: u8, y: u8| u16::from_le_bytes([x, y]);
            match ins {
                Instruction::Jump { offset } => assert!(b[0] == Op::Jump as u8 && ip == 3 && *offset == le(b[1], b[2]), "C05.decode: Jump is op + little-endian u16"),
                Instruction::JumpBack { offset } => assert!(b[0] == Op::JumpBack as u8 && ip == 3 && *offset == le(b[1], b[2]), "C05.decode: JumpBack is op + little-endian u16"),
                Instruction::JumpIfTrue { register, offset } => assert!(b[0] == Op::JumpIfTrue as u8 && ip == 4 && *register == b[1] && *offset == le(b[2], b[3]), "C05.decode: JumpIfTrue is op, register, little-endian u16"),
                Instruction::JumpIfFalse { register, offset } => assert!(b[0] == Op::JumpIfFalse as u8 && ip == 4 && *register == b[1] && *offset == le(b[2], b[3]), "C05.decode: JumpIfFalse is op, register, little-endian u16"),
                Instruction::JumpIfNull { register, offset } => assert!(b[0] == Op::JumpIfNull as u8 && ip == 4 && *register == b[1] && *offset == le(b[2], b[3]), "C05.decode: JumpIfNull is op, register, little-endian u16"),
                Instruction::LoadFloat { register, constant } | Instruction::LoadInt { register, constant } | Instruction::LoadString { register, constant } | Instruction::LoadNonLocal { register, constant } => {
                    let want_op = match ins {
                        Instruction::LoadFloat { .. } => Op::LoadFloat,
                        Instruction::LoadInt { .. } => Op::LoadInt,
                        Instruction::LoadString { .. } => Op::LoadString,
                        _ => Op::LoadNonLocal,
                    };
                    match leb(b, 2) {
                        Some((v, n)) => assert!(b[0] == want_op as u8 && *register == b[1] && u32::from(*constant) == v && ip == 2 + n, "C05.decode: constant loads are op, register, LEB128 constant index"),
                        None => assert!(false, "C05.decode: a constant load only decodes when its var-int is complete"),
                    }
                }
                Instruction::Function { register, arg_count, optional_arg_count, capture_count, flags, size } => {
                    assert!(b[0] == Op::Function as u8 && ip == 8 && *register == b[1] && *arg_count == b[2] && *optional_arg_count == b[3] && *capture_count == b[4]
                        && u8::from(*flags) == b[5] && *size == le(b[6], b[7]), "C05.decode: Function is op, register, three counts, flags, little-endian size");
                }
                Instruction::StringPush { value, format_options: None } => assert!(b[0] == Op::StringPush as u8 && *value == b[1] && b[2] == 0 && ip == 3, "C05.decode: StringPush without options is op, value, 0"),
                Instruction::StringPush { value, format_options: Some(o) } => {
                    let f = b[2];
                    let mut at = 3;
                    let mut ok = b[0] == Op::StringPush as u8 && *value == b[1] && f != 0 && (o.alignment as u8) == (f & 3);
                    if f & 4 != 0 {
                        match leb(b, at) { Some((v, n)) => { ok &= o.min_width == Some(v); at += n } None => ok = false }
                    } else { ok &= o.min_width.is_none() }
                    if f & 8 != 0 {
                        match leb(b, at) { Some((v, n)) => { ok &= o.precision == Some(v); at += n } None => ok = false }
                    } else { ok &= o.precision.is_none() }
                    if f & 16 != 0 {
                        match leb(b, at) { Some((v, n)) => { ok &= o.fill_character.map(u32::from) == Some(v); at += n } None => ok = false }
                    } else { ok &= o.fill_character.is_none() }
                    if f & 32 != 0 {
                        ok &= at < len && o.representation.map(|r| r as u8) == Some(b[at]);
                        at += 1;
                    } else { ok &= o.representation.is_none() }
                    assert!(ok && ip == at, "C05.decode: StringPush is op, value, flags, then width, precision, fill (LEB128) and representation in that order, each present iff its flag bit is set");
                }
                _ => {}
            }
        }
    }
    kani::cover!(matches!(&instruction, Some(Instruction::Function { .. })), "a Function instruction (8 bytes) decodes");
    kani::cover!(matches!(&instruction, Some(Instruction::Error { .. })) && len == N, "an Error instruction on a full buffer");
    kani::cover!(matches!(&instruction, Some(Instruction::JumpBack { .. })), "a JumpBack decodes");
    kani::cover!(matches!(&instruction, Some(Instruction::StringPush { format_options: Some(o), .. }) if o.min_width.is_some() && o.representation.is_some()), "a StringPush with width and representation decodes");
    kani::cover!(matches!(&instruction, Some(Instruction::LoadInt { constant, .. }) if u32::from(*constant) > 1 << 21), "a four-byte constant index decodes");
    std::mem::forget(instruction);
    std::mem::forget(reader);
}

// @props C05
// @fns FunctionFlags::new, FunctionFlags::try_from, u8::from(FunctionFlags), accessors
// @bound all 16 flag combinations, all 256 bytes
#[kani::proof]
#[kani::stub(std::fmt::format, stub_format)]
fn c05_function_flags() {
    let (a, b, c, d): (bool, bool, bool, bool) = (kani::any(), kani::any(), kani::any(), kani::any());
    let f = FunctionFlags::new(a, b, c, d);
    let byte: u8 = f.into();
    match FunctionFlags::try_from(byte) {
        Ok(g) => assert!(g.is_variadic() == a && g.is_generator() == b && g.arg_is_unpacked_tuple() == c && g.non_local_access() == d, "C05.flags: function flags survive encoding"),
        Err(e) => {
            std::mem::forget(e);
            assert!(false, "C05.flags: encoded function flags decode");
        }
    }
    let any_byte: u8 = kani::any();
    match FunctionFlags::try_from(any_byte) {
        Ok(g) => assert!(any_byte < 16 && u8::from(g) == any_byte, "C05.flags: only the four defined bits are accepted"),
        Err(e) => {
            std::mem::forget(e);
            assert!(any_byte >= 16, "C05.flags: unknown bits are rejected");
        }
    }
    kani::cover!(a && b && c && d, "all flags set");
}
