// Kani harnesses woven into crates/bytecode/src/instruction_reader.rs
// @weave crates/bytecode/src/instruction_reader.rs
#![allow(unused)]
use super::*;

fn stub_format(_args: std::fmt::Arguments<'_>) -> String {
    String::new()
}

fn stub_random_state() -> std::hash::RandomState {
    unsafe { std::mem::transmute([1u64, 2u64]) }
}

const N: usize = 9;

// @props C05 C06
// @fns InstructionReader::next (all 256 opcodes: every decoder arm, get_u8 / get_u8_array / get_u16 / get_var_u32 macros, out_of_bounds_access_error)
// @bound buffers of 0..=9 arbitrary bytes, reader at ip 0; var-ints at most 5 bytes long (bytes 5 and 6 carry no continuation bit), which is what push_var_u32 emits
// @assume std::fmt::format stubbed (error messages are not the subject); var-int operands are at most 5 bytes (longer ones are never emitted by the compiler and overflow the decoder's shift)
// @timeout 3000
// @mem 16
// @tier thorough
#[kani::proof]
#[kani::unwind(11)]
#[kani::stub(std::fmt::format, stub_format)]
#[kani::stub(std::hash::RandomState::new, stub_random_state)]
fn c05_decode_total() {
    let len: usize = kani::any();
    kani::assume(len <= N);
    let mut bytes: Vec<u8> = Vec::with_capacity(N);
    let mut i = 0;
    while i < N {
        let b: u8 = kani::any();
        if i == 5 || i == 6 {
            kani::assume(b & 0x80 == 0);
        }
        if i < len {
            bytes.push(b);
        }
        i += 1;
    }
    let chunk = Chunk { bytes, ..Default::default() };
    let mut reader = InstructionReader::new(Ptr::from(chunk));
    let instruction = reader.next();
    match &instruction {
        None => assert!(len < 2 && reader.ip == 0, "C05.decode: the reader only stops when fewer than two bytes remain"),
        Some(_) => {
            assert!(reader.ip >= 2 && reader.ip <= len, "C05.decode: decoding stays inside the buffer and consumes at least the op and its first operand");
        }
    }
    kani::cover!(matches!(&instruction, Some(Instruction::Function { .. })), "a Function instruction (8 bytes) decodes");
    kani::cover!(matches!(&instruction, Some(Instruction::Error { .. })) && len == N, "an Error instruction on a full buffer");
    kani::cover!(matches!(&instruction, Some(Instruction::JumpBack { .. })), "a JumpBack decodes");
    std::mem::forget(instruction);
    std::mem::forget(reader);
}

fn decode_jump(which: u8) {
    let lo: u8 = kani::any();
    let hi: u8 = kani::any();
    let reg: u8 = kani::any();
    let want = u16::from_le_bytes([lo, hi]);
    let bytes = match which {
        0 => vec![Op::Jump as u8, lo, hi],
        1 => vec![Op::JumpBack as u8, lo, hi],
        2 => vec![Op::JumpIfTrue as u8, reg, lo, hi],
        3 => vec![Op::JumpIfFalse as u8, reg, lo, hi],
        _ => vec![Op::JumpIfNull as u8, reg, lo, hi],
    };
    let len = bytes.len();
    let chunk = Chunk { bytes, ..Default::default() };
    let mut reader = InstructionReader::new(Ptr::from(chunk));
    let instruction = reader.next();
    let ok = match (&instruction, which) {
        (Some(Instruction::Jump { offset }), 0) => *offset == want,
        (Some(Instruction::JumpBack { offset }), 1) => *offset == want,
        (Some(Instruction::JumpIfTrue { register, offset }), 2) => *register == reg && *offset == want,
        (Some(Instruction::JumpIfFalse { register, offset }), 3) => *register == reg && *offset == want,
        (Some(Instruction::JumpIfNull { register, offset }), 4) => *register == reg && *offset == want,
        _ => false,
    };
    assert!(ok && reader.ip == len, "C05.decode: jump instructions decode their little-endian offset and consume exactly their bytes");
    kani::cover!(want == 65535, "offset 65535");
    std::mem::forget(instruction);
    std::mem::forget(reader);
}

// @props C05
// @fns InstructionReader::next (Jump, JumpBack, JumpIfTrue, JumpIfFalse, JumpIfNull arms), get_u16
// @bound all 16-bit offsets and registers, each of the five jump opcodes (concrete opcode per block so that the decoder's dispatch is pruned); little-endian operand order as the compiler's placeholder patching writes it
#[kani::proof]
#[kani::unwind(6)]
#[kani::stub(std::fmt::format, stub_format)]
#[kani::stub(std::hash::RandomState::new, stub_random_state)]
fn c05_decode_jumps() {
    decode_jump(0);
    decode_jump(1);
    decode_jump(2);
    decode_jump(3);
    decode_jump(4);
}

// @props C05
// @fns FunctionFlags::new, FunctionFlags::try_from, u8::from(FunctionFlags), accessors
// @bound all 16 flag combinations, all 256 bytes
#[kani::proof]
#[kani::stub(std::fmt::format, stub_format)]
fn c05_function_flags() {
    let (a, b, c, d): (bool, bool, bool, bool) = (kani::any(), kani::any(), kani::any(), kani::any());
    let f = FunctionFlags::new(a, b, c, d);
    let byte: u8 = f.into();
    match FunctionFlags::try_from(byte) {
        Ok(g) => assert!(g.is_variadic() == a && g.is_generator() == b && g.arg_is_unpacked_tuple() == c && g.non_local_access() == d, "C05.flags: function flags survive encoding"),
        Err(e) => {
            std::mem::forget(e);
            assert!(false, "C05.flags: encoded function flags decode");
        }
    }
    let any_byte: u8 = kani::any();
    match FunctionFlags::try_from(any_byte) {
        Ok(g) => assert!(any_byte < 16 && u8::from(g) == any_byte, "C05.flags: only the four defined bits are accepted"),
        Err(e) => {
            std::mem::forget(e);
            assert!(any_byte >= 16, "C05.flags: unknown bits are rejected");
        }
    }
    kani::cover!(a && b && c && d, "all flags set");
}
