// Kani harnesses woven into crates/bytecode/src/compiler.rs: jump and varint encoders against the real decoder.
// @weave crates/bytecode/src/compiler.rs
#![allow(unused)]
use super::*;
use crate::{Chunk, Instruction, InstructionReader};
use koto_memory::Ptr;

fn stub_random_state() -> std::hash::RandomState {
    unsafe { std::mem::transmute([1u64, 2u64]) }
}

fn stub_format(_args: std::fmt::Arguments<'_>) -> String {
    String::new()
}

const CAP: usize = 69_000;

// A compiler whose byte buffer has an arbitrary length up to CAP (contents irrelevant to the jump encoders,
// left uninitialised) and one span on the span stack (what push_span guarantees while a node is compiled).
fn compiler_with_len(len: usize) -> Compiler {
    let mut c = Compiler::default();
    let mut bytes: Vec<u8> = Vec::with_capacity(CAP + 16);
    unsafe { bytes.set_len(len) };
    c.bytes = bytes;
    c.span_stack.push(Span::default());
    c
}

// The code length is concrete per call (a symbolic length makes CBMC explore Vec's reallocation path over a
// 69 kB buffer: segfault / no result), the jump target is symbolic, so every distance 3..=len+3 is covered.
fn jump_back(len: usize) {
    let target: usize = kani::any();
    kani::assume(target <= len);
    let mut c = compiler_with_len(len);
    let r = c.push_jump_back_op(Op::JumpBack, &[], target);
    match r {
        Ok(()) => {
            let n = c.bytes.len();
            assert!(n == len + 3, "C05.jback: JumpBack is one opcode byte and a two-byte offset");
            assert!(c.bytes[len] == Op::JumpBack as u8, "C05.jback: the opcode is written first");
            let offset = u16::from_le_bytes([c.bytes[n - 2], c.bytes[n - 1]]) as usize;
            // the VM subtracts the offset from the ip after the instruction
            assert!(n - offset == target, "C05.jback: the encoded offset leads back exactly to the target");
        }
        Err(e) => {
            assert!(len + 3 - target > u16::MAX as usize, "C05.jback: an error only when the distance does not fit in 16 bits");
            std::mem::forget(e);
        }
    }
    kani::cover!(len + 3 - target == 65535 || len < 65532, "largest encodable distance");
    kani::cover!(len + 3 - target == 65536 || len < 65533, "smallest distance that must be rejected");
    std::mem::forget(c);
}

// @props C05
// @fns Compiler::push_jump_back_op (JumpBack of loop / while / until / for), Compiler::push_op_without_span, Compiler::push_bytes
// @bound code lengths 2, 65532, 65533 and 69000 (concrete), every target ip <= length (symbolic): every distance from 3 to 69003, the u16 boundary 65535 / 65536 included
// @assume the jump target lies at or before the current end of the code (loop start ips are recorded before the body is compiled)
#[kani::proof]
#[kani::unwind(4)]
#[kani::stub(std::hash::RandomState::new, stub_random_state)]
fn c05_jump_back() {
    jump_back(2);
    jump_back(65532);
    jump_back(65533);
    jump_back(69000);
}

fn jump_forward(pos: usize) {
    let len: usize = kani::any();
    kani::assume(len <= CAP && len >= pos + 2);
    let mut c = compiler_with_len(len);
    let r = c.update_offset_placeholder(pos);
    let distance = len - pos - 2;
    match r {
        Ok(()) => {
            let offset = u16::from_le_bytes([c.bytes[pos], c.bytes[pos + 1]]) as usize;
            // the VM adds the offset to the ip after the two placeholder bytes
            assert!(distance <= u16::MAX as usize && pos + 2 + offset == len, "C05.jfwd: the patched offset lands exactly on the current end of the code");
            assert!(c.bytes.len() == len, "C05.jfwd: patching does not change the code length");
        }
        Err(e) => {
            assert!(distance > u16::MAX as usize, "C05.jfwd: JumpOffsetIsTooLarge only when the distance does not fit in 16 bits");
            std::mem::forget(e);
        }
    }
    kani::cover!(distance == 65535, "largest encodable distance");
    kani::cover!(distance == 65536, "smallest distance that must be rejected");
    std::mem::forget(c);
}

// @props C05
// @fns Compiler::update_offset_placeholder (forward jumps: if / else, short-circuit and / or, loop exits, break, match arms, try, function sizes)
// @bound placeholder at concrete positions 0, 1 and 7, code length symbolic up to 69000 (a symbolic write index into a 70 kB buffer produced 31 M clauses, DESIGN §4 C05.jfwd)
#[kani::proof]
#[kani::unwind(4)]
#[kani::stub(std::hash::RandomState::new, stub_random_state)]
fn c05_jump_forward() {
    jump_forward(0);
    jump_forward(1);
    jump_forward(7);
}

fn placeholder_pair(len: usize) {
    let mut c = compiler_with_len(len);
    let ip = c.push_offset_placeholder();
    assert!(ip == len && c.bytes.len() == len + 2, "C05.jfwd: the placeholder is the two bytes at the returned ip");
    // patch it right away: distance zero
    match c.update_offset_placeholder(ip) {
        Ok(()) => assert!(c.bytes[ip] == 0 && c.bytes[ip + 1] == 0, "C05.jfwd: a jump to the next instruction has offset zero"),
        Err(e) => {
            std::mem::forget(e);
            assert!(false, "C05.jfwd: distance zero always fits");
        }
    }
    std::mem::forget(c);
}

// @props C05
// @fns Compiler::push_offset_placeholder, Compiler::update_offset_placeholder
// @bound placeholder pushed at code lengths 0, 5 and 65535 and patched immediately
#[kani::proof]
#[kani::unwind(4)]
#[kani::stub(std::hash::RandomState::new, stub_random_state)]
fn c05_jump_placeholder_pair() {
    placeholder_pair(0);
    placeholder_pair(5);
    placeholder_pair(65535);
}

fn varint_roundtrip(op: Op) {
    let n: u32 = kani::any();
    let r: u8 = kani::any();
    let mut c = Compiler::default();
    c.span_stack.push(Span::default());
    c.compile_constant_op(r, ConstantIndex::from(n), op);
    let len = c.bytes.len();
    assert!(len >= 3 && len <= 7, "C05.varint: a constant load is op, register and 1-5 varint bytes");
    assert!(c.bytes[len - 1] & 0x80 == 0, "C05.varint: the last varint byte has no continuation bit");
    let expect_len = 2 + if n < 1 << 7 { 1 } else if n < 1 << 14 { 2 } else if n < 1 << 21 { 3 } else if n < 1 << 28 { 4 } else { 5 };
    assert!(len == expect_len, "C05.varint: minimal-length encoding");
    assert!(c.bytes[0] == op as u8, "C05.varint: the opcode is the first byte");
    let mut bytes = std::mem::take(&mut c.bytes);
    bytes[0] = op as u8; // same value, now a constant for symbolic execution: the decoder's dispatch is pruned to one arm
    let chunk = Chunk { bytes, ..Default::default() };
    let mut reader = InstructionReader::new(Ptr::from(chunk));
    let instruction = reader.next();
    let ok = match (&instruction, op) {
        (Some(Instruction::LoadFloat { register, constant }), Op::LoadFloat) => *register == r && u32::from(*constant) == n,
        (Some(Instruction::LoadInt { register, constant }), Op::LoadInt) => *register == r && u32::from(*constant) == n,
        (Some(Instruction::LoadString { register, constant }), Op::LoadString) => *register == r && u32::from(*constant) == n,
        (Some(Instruction::LoadNonLocal { register, constant }), Op::LoadNonLocal) => *register == r && u32::from(*constant) == n,
        _ => false,
    };
    assert!(ok, "C05.varint: the decoder reads back the op, register and constant index that were encoded");
    assert!(reader.ip == len, "C05.varint: the decoder consumes exactly the encoded bytes");
    kani::cover!(n == u32::MAX, "largest constant index");
    kani::cover!(n == 1 << 14, "three-byte boundary");
    std::mem::forget(instruction);
    std::mem::forget(reader);
    std::mem::forget(c);
}

// @props C05
// @fns Compiler::push_var_u32, Compiler::compile_constant_op, InstructionReader::next (LoadFloat / LoadInt / LoadString / LoadNonLocal arms, get_var_u32)
// @bound every u32 constant index, every register, all four constant-loading ops; round trip through the real decoder
// @assume std::fmt::format stubbed (error-message construction in the decoder's error arms is not the subject)
// @timeout 1200
// @mem 10
#[kani::proof]
#[kani::unwind(7)]
#[kani::stub(std::hash::RandomState::new, stub_random_state)]
#[kani::stub(std::fmt::format, stub_format)]
fn c05_varint_roundtrip() {
    varint_roundtrip(Op::LoadFloat);
    varint_roundtrip(Op::LoadInt);
    varint_roundtrip(Op::LoadString);
    varint_roundtrip(Op::LoadNonLocal);
}

// @props C05 C15
// @fns StringFormatFlags::from(StringFormatOptions), Compiler::push_var_u32, InstructionReader::next (StringPush arm), StringFormatFlags::try_from, StringFormatRepresentation::try_from
// @bound every combination of alignment, presence of width / precision / fill / representation, width and precision over all u32, fill constant index over all u32, all 7 representations
// @assume the operand order (flags, width, precision, fill, representation) is the one compile_string writes; it is replicated here because the emitter is inline in compile_string
// @timeout 1500
// @mem 12
#[kani::proof]
#[kani::unwind(7)]
#[kani::stub(std::hash::RandomState::new, stub_random_state)]
#[kani::stub(std::fmt::format, stub_format)]
fn c05_string_format_roundtrip() {
    use koto_parser::{StringAlignment, StringFormatOptions, StringFormatRepresentation};
    let align = match kani::any::<u8>() & 3 {
        0 => StringAlignment::Default,
        1 => StringAlignment::Left,
        2 => StringAlignment::Center,
        _ => StringAlignment::Right,
    };
    let repr = match kani::any::<u8>() % 7 {
        0 => StringFormatRepresentation::Debug,
        1 => StringFormatRepresentation::HexLower,
        2 => StringFormatRepresentation::HexUpper,
        3 => StringFormatRepresentation::Binary,
        4 => StringFormatRepresentation::Octal,
        5 => StringFormatRepresentation::ExpLower,
        _ => StringFormatRepresentation::ExpUpper,
    };
    let opts = StringFormatOptions {
        alignment: align,
        min_width: if kani::any() { Some(kani::any()) } else { None },
        precision: if kani::any() { Some(kani::any()) } else { None },
        fill_character: if kani::any() { Some(ConstantIndex::from(kani::any::<u32>())) } else { None },
        representation: if kani::any() { Some(repr) } else { None },
    };
    let value: u8 = kani::any();
    let mut c = Compiler::default();
    c.span_stack.push(Span::default());
    // compile_string, StringNode::Expression arm
    let format_flags = StringFormatFlags::from(opts);
    c.push_op_without_span(Op::StringPush, &[value, format_flags.into()]);
    if let Some(min_width) = opts.min_width {
        c.push_var_u32(min_width);
    }
    if let Some(precision) = opts.precision {
        c.push_var_u32(precision);
    }
    if let Some(fill_constant) = opts.fill_character {
        c.push_var_u32(fill_constant.into());
    }
    if let Some(style) = opts.representation {
        c.bytes.push(style as u8);
    }
    let len = c.bytes.len();
    assert!(c.bytes[0] == Op::StringPush as u8, "C05.strfmt: the opcode is the first byte");
    let mut bytes = std::mem::take(&mut c.bytes);
    bytes[0] = Op::StringPush as u8; // same value, now a constant for symbolic execution
    let chunk = Chunk { bytes, ..Default::default() };
    let mut reader = InstructionReader::new(Ptr::from(chunk));
    let instruction = reader.next();
    let is_default = opts.alignment == StringAlignment::Default && opts.min_width.is_none() && opts.precision.is_none() && opts.fill_character.is_none() && opts.representation.is_none();
    let ok = match &instruction {
        Some(Instruction::StringPush { value: v, format_options: Some(o) }) => *v == value && *o == opts,
        Some(Instruction::StringPush { value: v, format_options: None }) => *v == value && is_default,
        _ => false,
    };
    assert!(ok, "C05.strfmt: the decoder reads back exactly the format options that were encoded");
    assert!(reader.ip == len, "C05.strfmt: the decoder consumes exactly the encoded bytes");
    kani::cover!(opts.min_width.is_some() && opts.precision.is_some() && opts.fill_character.is_some() && opts.representation.is_some(), "all options present");
    kani::cover!(is_default, "no options");
    std::mem::forget(instruction);
    std::mem::forget(reader);
    std::mem::forget(c);
}
