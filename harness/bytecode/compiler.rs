// Kani harnesses woven into crates/bytecode/src/compiler.rs: jump and varint encoders against the real decoder.
// @weave crates/bytecode/src/compiler.rs
#![allow(unused)]
use super::*;
use crate::{Chunk, Instruction, InstructionReader};
use koto_memory::Ptr;

fn stub_random_state() -> std::hash::RandomState {
    unsafe { std::mem::transmute([1u64, 2u64]) }
}

fn stub_format(_args: std::fmt::Arguments<'_>) -> String {
    String::new()
}

const CAP: usize = 69_000;

// A compiler whose byte buffer has an arbitrary length up to CAP (contents irrelevant to the jump encoders,
// left uninitialised) and one span on the span stack (what push_span guarantees while a node is compiled).
fn compiler_with_len(len: usize) -> Compiler {
    let mut c = Compiler::default();
    let mut bytes: Vec<u8> = Vec::with_capacity(CAP + 16);
    unsafe { bytes.set_len(len) };
    c.bytes = bytes;
    c.span_stack.push(Span::default());
    c
}

// The code length is concrete per call (a symbolic length makes CBMC explore Vec's reallocation path over a
// 69 kB buffer: segfault / no result), the jump target is symbolic, so every distance 3..=len+3 is covered.
fn jump_back(len: usize) {
    let target: usize = kani::any();
    kani::assume(target <= len);
    let mut c = compiler_with_len(len);
    let r = c.push_jump_back_op(Op::JumpBack, &[], target);
    match r {
        Ok(()) => {
            let n = c.bytes.len();
            assert!(n == len + 3, "C05.jback: JumpBack is one opcode byte and a two-byte offset");
            assert!(c.bytes[len] == Op::JumpBack as u8, "C05.jback: the opcode is written first");
            let offset = u16::from_le_bytes([c.bytes[n - 2], c.bytes[n - 1]]) as usize;
            // the VM subtracts the offset from the ip after the instruction
            assert!(n - offset == target, "C05.jback: the encoded offset leads back exactly to the target");
        }
        Err(e) => {
            assert!(len + 3 - target > u16::MAX as usize, "C05.jback: an error only when the distance does not fit in 16 bits");
            std::mem::forget(e);
        }
    }
    kani::cover!(len + 3 - target == 65535 || len < 65532, "largest encodable distance");
    kani::cover!(len + 3 - target == 65536 || len < 65533, "smallest distance that must be rejected");
    std::mem::forget(c);
}

// @props C05
// @fns Compiler::push_jump_back_op (JumpBack of loop / while / until / for), Compiler::push_op_without_span, Compiler::push_bytes
// @bound code lengths 2, 65532, 65533 and 69000 (concrete), every target ip <= length (symbolic): every distance from 3 to 69003, the u16 boundary 65535 / 65536 included
// @assume the jump target lies at or before the current end of the code (loop start ips are recorded before the body is compiled)
// @kani --no-memory-safety-checks --no-assertion-reach-checks
// @timeout 1500
#[kani::proof]
#[kani::unwind(4)]
#[kani::stub(std::hash::RandomState::new, stub_random_state)]
fn c05_jump_back() {
    jump_back(2);
    jump_back(65532);
    jump_back(65533);
    jump_back(69000);
}

fn jump_forward(pos: usize) {
    let len: usize = kani::any();
    kani::assume(len <= CAP && len >= pos + 2);
    let mut c = compiler_with_len(len);
    let r = c.update_offset_placeholder(pos);
    let distance = len - pos - 2;
    match r {
        Ok(()) => {
            let offset = u16::from_le_bytes([c.bytes[pos], c.bytes[pos + 1]]) as usize;
            // the VM adds the offset to the ip after the two placeholder bytes
            assert!(distance <= u16::MAX as usize && pos + 2 + offset == len, "C05.jfwd: the patched offset lands exactly on the current end of the code");
            assert!(c.bytes.len() == len, "C05.jfwd: patching does not change the code length");
        }
        Err(e) => {
            assert!(distance > u16::MAX as usize, "C05.jfwd: JumpOffsetIsTooLarge only when the distance does not fit in 16 bits");
            std::mem::forget(e);
        }
    }
    kani::cover!(distance == 65535, "largest encodable distance");
    kani::cover!(distance == 65536, "smallest distance that must be rejected");
    std::mem::forget(c);
}

// @props C05
// @fns Compiler::update_offset_placeholder (forward jumps: if / else, short-circuit and / or, loop exits, break, match arms, try, function sizes)
// @bound placeholder at concrete positions 0, 1 and 7, code length symbolic up to 69000 (a symbolic write index into a 70 kB buffer produced 31 M clauses, DESIGN §4 C05.jfwd)
// @kani --no-memory-safety-checks --no-assertion-reach-checks
// @timeout 1500
#[kani::proof]
#[kani::unwind(4)]
#[kani::stub(std::hash::RandomState::new, stub_random_state)]
fn c05_jump_forward() {
    jump_forward(0);
    jump_forward(1);
    jump_forward(7);
}

fn placeholder_pair(len: usize) {
    let mut c = compiler_with_len(len);
    let ip = c.push_offset_placeholder();
    assert!(ip == len && c.bytes.len() == len + 2, "C05.jfwd: the placeholder is the two bytes at the returned ip");
    // patch it right away: distance zero
    match c.update_offset_placeholder(ip) {
        Ok(()) => assert!(c.bytes[ip] == 0 && c.bytes[ip + 1] == 0, "C05.jfwd: a jump to the next instruction has offset zero"),
        Err(e) => {
            std::mem::forget(e);
            assert!(false, "C05.jfwd: distance zero always fits");
        }
    }
    std::mem::forget(c);
}

// @props C05
// @fns Compiler::push_offset_placeholder, Compiler::update_offset_placeholder
// @bound placeholder pushed at code lengths 0, 5 and 65535 and patched immediately
// @kani --no-memory-safety-checks --no-assertion-reach-checks
#[kani::proof]
#[kani::unwind(4)]
#[kani::stub(std::hash::RandomState::new, stub_random_state)]
fn c05_jump_placeholder_pair() {
    placeholder_pair(0);
    placeholder_pair(5);
    placeholder_pair(65535);
    kani::cover!(true, "the end of the harness is reached past every obligation");
}

// LEB128 oracle (independent of the implementation): minimal-length little-endian base-128 digits of n
fn leb_digit(n: u32, i: usize) -> u8 {
    ((n >> (7 * i as u32)) & 0x7f) as u8
}
fn leb_len(n: u32) -> usize {
    if n < 1 << 7 { 1 } else if n < 1 << 14 { 2 } else if n < 1 << 21 { 3 } else if n < 1 << 28 { 4 } else { 5 }
}

// @props C05
// @fns Compiler::push_var_u32, Compiler::compile_constant_op, Compiler::push_op
// @bound every u32 constant index, every register; the emitted bytes are exactly op, register and the minimal LEB128 digits of the index (the layout c05_decode_total checks the decoder against)
#[kani::proof]
#[kani::unwind(8)]
#[kani::stub(std::hash::RandomState::new, stub_random_state)]
fn c05_varint_encode() {
    let n: u32 = kani::any();
    let r: u8 = kani::any();
    let mut c = Compiler::default();
    c.span_stack.push(Span::default());
    c.compile_constant_op(r, ConstantIndex::from(n), Op::LoadInt);
    let len = c.bytes.len();
    let want = leb_len(n);
    assert!(len == 2 + want, "C05.varint: a constant load is op, register and the minimal number of var-int bytes");
    assert!(c.bytes[0] == Op::LoadInt as u8 && c.bytes[1] == r, "C05.varint: op and register come first");
    let mut i = 0;
    while i < 5 {
        if i < want {
            let cont = if i + 1 < want { 0x80 } else { 0 };
            assert!(c.bytes[2 + i] == leb_digit(n, i) | cont, "C05.varint: byte i is the i-th base-128 digit, bit 7 set on all but the last");
        }
        i += 1;
    }
    assert!(c.debug_info.get_source_span(0).is_some(), "C05.varint: push_op records a span for the instruction");
    kani::cover!(n == u32::MAX, "largest constant index");
    kani::cover!(n == 1 << 14, "three-byte boundary");
    std::mem::forget(c);
}

// @props C05 C15
// @fns StringFormatFlags::from(StringFormatOptions), u8::from(StringFormatFlags), StringFormatFlags::try_from, accessors
// @bound every combination of alignment and presence of width / precision / fill / representation; all 256 bytes for try_from
#[kani::proof]
#[kani::stub(std::fmt::format, stub_format)]
fn c05_string_format_flags() {
    use koto_parser::{StringAlignment, StringFormatOptions, StringFormatRepresentation};
    let a: u8 = kani::any();
    kani::assume(a < 4);
    let align = match a {
        0 => StringAlignment::Default,
        1 => StringAlignment::Left,
        2 => StringAlignment::Center,
        _ => StringAlignment::Right,
    };
    let (w, p, f, r): (bool, bool, bool, bool) = (kani::any(), kani::any(), kani::any(), kani::any());
    let opts = StringFormatOptions {
        alignment: align,
        min_width: if w { Some(kani::any()) } else { None },
        precision: if p { Some(kani::any()) } else { None },
        fill_character: if f { Some(ConstantIndex::from(kani::any::<u32>())) } else { None },
        representation: if r { Some(StringFormatRepresentation::HexLower) } else { None },
    };
    let byte: u8 = StringFormatFlags::from(opts).into();
    let want = (align as u8) | (w as u8) << 2 | (p as u8) << 3 | (f as u8) << 4 | (r as u8) << 5;
    assert!(byte == want, "C05.strfmt: flags byte = alignment in bits 0-1, width / precision / fill / representation in bits 2-5 (the layout c05_decode_total checks the decoder against)");
    let any_byte: u8 = kani::any();
    match StringFormatFlags::try_from(any_byte) {
        Ok(g) => {
            assert!(g.has_min_width() == (any_byte & 4 != 0) && g.has_precision() == (any_byte & 8 != 0) && g.has_fill_character() == (any_byte & 16 != 0) && g.has_representation() == (any_byte & 32 != 0) && g.alignment() as u8 == any_byte & 3, "C05.strfmt: accessors read their bits");
        }
        Err(e) => {
            std::mem::forget(e);
            assert!(any_byte >= 64, "C05.strfmt: every combination of the defined flag bits is a valid flags byte");
        }
    }
    kani::cover!(w && p && f && r, "all options present");
}
