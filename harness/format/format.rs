// Kani harnesses woven into crates/format/src/format.rs: the span -> source text lookup the formatter uses to copy
// number literals and `#[fmt:skip]` regions out of the source.
// @weave crates/format/src/format.rs
// @config patches=unicode
#![allow(unused)]
use super::*;
use koto_parser::Position;

fn stub_random_state() -> std::hash::RandomState {
    unsafe { std::mem::transmute([1u64, 2u64]) }
}

fn same_bytes(x: &[u8], y: &[u8]) -> bool {
    if x.len() != y.len() {
        return false;
    }
    let mut i = 0;
    while i < x.len() {
        if x[i] != y[i] {
            return false;
        }
        i += 1;
    }
    true
}

fn boundary(b: &[u8], i: usize) -> bool {
    i == b.len() || (i < b.len() && (b[i] & 0xC0) != 0x80)
}

// The position the lexer reports for byte offset `at`: line = number of LF before it, column = sum over the
// characters since the line start of the lexer's column increment (1 for printable ASCII and U+00E9, 2 for U+5B57).
fn position_of(b: &[u8], at: usize) -> Position {
    let mut line = 0;
    let mut column = 0;
    let mut i = 0;
    while i < at {
        let c = b[i];
        if c == b'\n' {
            line += 1;
            column = 0;
            i += 1;
        } else if c < 0x80 {
            column += 1;
            i += 1;
        } else if c == 0xC3 {
            column += 1;
            i += 2;
        } else {
            column += 2;
            i += 3;
        }
    }
    Position { line, column }
}

fn put_ascii(buf: &mut [u8], at: usize) {
    let b: u8 = kani::any();
    kani::assume(matches!(b, b'a' | b'9' | b' ' | b'\n' | b'\r' | b'.'));
    buf[at] = b;
}

fn check(b: &[u8]) {
    let src = unsafe { std::str::from_utf8_unchecked(b) };
    let ast = Ast::default();
    let options = FormatOptions::default();
    let ctx = FormatContext::new(src, &ast, &options);
    let a: usize = kani::any();
    let e: usize = kani::any();
    kani::assume(a <= e && e <= b.len() && boundary(b, a) && boundary(b, e));
    let span = Span { start: position_of(b, a), end: position_of(b, e) };
    let got = ctx.source_slice(&span);
    assert!(same_bytes(got.as_bytes(), &b[a..e]), "C11.slice: the text copied for a span is exactly the source text the span covers");
    kani::cover!(e > a + 1 && span.start.line > 0, "a multi-byte region on a later line");
    std::mem::forget(ctx);
    std::mem::forget(ast);
}

// @props C11 C06
// @fns FormatContext::new (line_offsets), FormatContext::source_slice
// @bound ASCII sources of 5 bytes over {a, 9, space, LF, CR, .}: every region [a, e) on character boundaries, spans computed as the lexer reports them
// @assume spans are (line = LF count, column = per-character increment of the lexer) of the region's ends, which is what C09 establishes for token spans
// @timeout 1800
// @mem 14
#[kani::proof]
#[kani::unwind(8)]
#[kani::stub(std::hash::RandomState::new, stub_random_state)]
fn c11_source_slice_ascii() {
    let mut b = [0u8; 5];
    put_ascii(&mut b, 0);
    put_ascii(&mut b, 1);
    put_ascii(&mut b, 2);
    put_ascii(&mut b, 3);
    put_ascii(&mut b, 4);
    check(&b);
}

// Known finding F13 partition: a character whose UTF-8 length differs from its column increment precedes the region on its line.
// @props C11
// @fns FormatContext::new (line_offsets), FormatContext::source_slice
// @bound sources "U+00E9 c c c" and "U+5B57 c c" with c over {a, 9, space, LF, CR, .}: regions behind the multi-byte character
// @timeout 1800
// @mem 14
#[kani::proof]
#[kani::unwind(8)]
#[kani::stub(std::hash::RandomState::new, stub_random_state)]
fn c11_source_slice_wide() {
    let mut b = [0u8; 5];
    if kani::any() {
        b[0] = 0xC3;
        b[1] = 0xA9;
        put_ascii(&mut b, 2);
    } else {
        b[0] = 0xE5;
        b[1] = 0xAD;
        b[2] = 0x97;
    }
    put_ascii(&mut b, 3);
    put_ascii(&mut b, 4);
    check(&b);
}
