// Kani harnesses woven into crates/parser/src/parser.rs: the binary-operator binding-power table.
// @weave crates/parser/src/parser.rs
#![allow(unused)]
use super::*;
use koto_lexer::{RawStringDelimiter, StringQuote};

const UNIT_TOKENS: [Token; 80] = [Token::Error, Token::Whitespace, Token::NewLine, Token::CommentSingle, Token::CommentMulti, Token::Number, Token::Id, Token::StringEnd, Token::StringLiteral, Token::At, Token::Colon, Token::Comma, Token::Dot, Token::Ellipsis, Token::Function, Token::RoundOpen, Token::RoundClose, Token::SquareOpen, Token::SquareClose, Token::CurlyOpen, Token::CurlyClose, Token::Range, Token::RangeInclusive, Token::Semicolon, Token::Underscore, Token::QuestionMark, Token::Add, Token::Subtract, Token::Multiply, Token::Divide, Token::Remainder, Token::Power, Token::Assign, Token::AddAssign, Token::SubtractAssign, Token::MultiplyAssign, Token::DivideAssign, Token::RemainderAssign, Token::PowerAssign, Token::Equal, Token::NotEqual, Token::Greater, Token::GreaterOrEqual, Token::Less, Token::LessOrEqual, Token::Arrow, Token::As, Token::And, Token::Break, Token::Catch, Token::Continue, Token::Debug, Token::Else, Token::ElseIf, Token::Export, Token::False, Token::Finally, Token::For, Token::From, Token::If, Token::Import, Token::In, Token::Loop, Token::Match, Token::Not, Token::Null, Token::Or, Token::Return, Token::Self_, Token::Switch, Token::Then, Token::Throw, Token::True, Token::Try, Token::Until, Token::While, Token::Yield, Token::Await, Token::Const, Token::Let];

fn any_token() -> Token {
    let k: usize = kani::any();
    kani::assume(k < UNIT_TOKENS.len() + 2);
    if k < UNIT_TOKENS.len() {
        UNIT_TOKENS[k]
    } else if k == UNIT_TOKENS.len() {
        Token::StringStart(StringType::Normal(StringQuote::Single))
    } else {
        Token::StringStart(StringType::Raw(RawStringDelimiter { quote: StringQuote::Double, hash_count: 1 }))
    }
}

// precedence tier of a binary operator per the language guide ("conventional order of precedence"), lowest first
fn tier(t: Token) -> Option<u8> {
    use Token::*;
    Some(match t {
        Arrow => 0,
        AddAssign | SubtractAssign | MultiplyAssign | DivideAssign | RemainderAssign | PowerAssign => 1,
        Or => 2,
        And => 3,
        Equal | NotEqual => 4,
        Greater | GreaterOrEqual | Less | LessOrEqual => 5,
        Add | Subtract => 6,
        Multiply | Divide | Remainder => 7,
        Power => 8,
        _ => return None,
    })
}

// @props C01
// @fns operator_precedence (the binding-power table of Parser::parse_expression_continued's precedence climbing)
// @bound both tokens symbolic over all 80 unit tokens and two StringStart payloads; no loop
#[kani::proof]
fn c01_operator_precedence() {
    let a = any_token();
    let b = any_token();
    let (pa, pb) = (operator_precedence(a), operator_precedence(b));
    assert!(pa.is_some() == tier(a).is_some(), "C01.prec: exactly the binary operators have a binding power");
    if let (Some((la, ra)), Some((lb, rb)), Some(ta), Some(tb)) = (pa, pb, tier(a), tier(b)) {
        let (amax, amin) = (if la > ra { la } else { ra }, if la < ra { la } else { ra });
        let (bmax, bmin) = (if lb > rb { lb } else { rb }, if lb < rb { lb } else { rb });
        if ta < tb {
            assert!(amax < bmin, "C01.prec: an operator of a lower tier binds strictly weaker on both sides");
        }
        if ta == tb {
            assert!(la == lb && ra == rb, "C01.prec: operators of one tier have identical binding powers");
        }
        if matches!(ta, 0 | 2 | 3 | 6 | 7) {
            assert!(ra > la, "C01.prec: pipe, or, and, + - and * / % are left-associative");
        }
        if ta == 1 {
            assert!(ra < la, "C01.prec: compound assignments are right-associative");
        }
        assert!(la >= 1 && ra >= 1, "C01.prec: binding powers are positive");
    }
    kani::cover!(tier(a) == Some(6) && tier(b) == Some(7), "additive against multiplicative");
    kani::cover!(pa.is_none() && pb.is_some(), "a non-operator against an operator");
}
