// @weave crates/parser/src/error.rs
#![allow(unused)]
use super::*;
use koto_lexer::Position;

// @props X04
// @timeout 900
// @mem 16
// @kani --no-memory-safety-checks --no-assertion-reach-checks
#[kani::proof]
#[kani::unwind(8)]
fn x04_excerpt_concrete_source() {
    let source = "ab\ncd\n";
    let sl: u32 = kani::any();
    let el: u32 = kani::any();
    let sc: u32 = kani::any();
    let ec: u32 = kani::any();
    // what C09 guarantees for lexer spans on this text: ordered, lines within 0..=2 (2 = after the final newline), columns within the line
    kani::assume(sl <= el && el <= 2 && sc <= 2 && ec <= 2);
    kani::assume(sl < el || sc <= ec);
    kani::assume(!(sl == 2 && el == 2)); // no token lies entirely after the final newline
    let span = Span { start: Position { line: sl, column: sc }, end: Position { line: el, column: ec } };
    let out = format_source_excerpt(source, &span, None);
    std::mem::forget(out);
}
