// Kani harnesses woven into crates/parser/src/parser.rs
// @weave crates/parser/src/parser.rs
#![allow(unused)]
use super::*;

fn stub_random_state() -> std::hash::RandomState {
    unsafe { std::mem::transmute([1u64, 2u64]) }
}

fn empty_parser() -> Parser<'static> {
    Parser {
        source: "",
        ast: Ast::with_capacity(0),
        constants: ConstantPoolBuilder::default(),
        lexer: Lexer::new(""),
        current_token: LexedToken::default(),
        frame_stack: Vec::new(),
        options: ParserOptions::default(),
    }
}

fn hexval(b: u8) -> Option<u32> {
    match b {
        b'0'..=b'9' => Some((b - b'0') as u32),
        b'a'..=b'f' => Some((b - b'a') as u32 + 10),
        b'A'..=b'F' => Some((b - b'A') as u32 + 10),
        _ => None,
    }
}

const N: usize = 12;

// @props C15 C06
// @fns Parser::escape_string_character (the decoder of \\ \' \" \{ \n \r \t \xHH \u{H...} and line continuations in string literals)
// @bound the 12 characters after the backslash, symbolic over {\\ ' " { } n r t x u g 0 1 4 7 8 9 a f F LF CR space}: \u{...} with up to 9 hex digits, i.e. across the u32 overflow of the code point accumulator
// @assume Parser built over an empty source (escape_string_character only uses it to attach the current span to errors)
// @timeout 1200
// @mem 12
// @kani --no-memory-safety-checks --no-assertion-reach-checks
#[kani::proof]
#[kani::unwind(15)]
#[kani::stub(std::hash::RandomState::new, stub_random_state)]
fn c15_escape() {
    let mut buf = [0u8; N];
    let mut i = 0;
    while i < N {
        let b: u8 = kani::any();
        kani::assume(matches!(b, b'\\' | b'\'' | b'"' | b'{' | b'}' | b'n' | b'r' | b't' | b'x' | b'u' | b'g' | b'0' | b'1' | b'4' | b'7' | b'8' | b'9' | b'a' | b'f' | b'F' | b'\n' | b'\r' | b' '));
        buf[i] = b;
        i += 1;
    }
    let s = unsafe { std::str::from_utf8_unchecked(&buf) };
    let mut parser = empty_parser();
    let mut chars = s.chars().peekable();
    let result = parser.escape_string_character(&mut chars);
    let mut left = 0;
    while chars.next().is_some() {
        left += 1;
    }
    let consumed = N - left;
    std::mem::forget(parser);
    // oracle
    match buf[0] {
        b'\\' | b'\'' | b'"' | b'{' => {
            assert!(matches!(result, Ok(Some(c)) if c as u32 == buf[0] as u32) && consumed == 1, "C15.esc: escaped backslash, quotes and open-brace stand for themselves");
        }
        b'n' => assert!(matches!(result, Ok(Some('\n'))) && consumed == 1, "C15.esc: \\n"),
        b'r' => assert!(matches!(result, Ok(Some('\r'))) && consumed == 1, "C15.esc: \\r"),
        b't' => assert!(matches!(result, Ok(Some('\t'))) && consumed == 1, "C15.esc: \\t"),
        b'x' => match (hexval(buf[1]), hexval(buf[2])) {
            (Some(h1), Some(h2)) => {
                let d = h1 * 16 + h2;
                if d <= 0x7f {
                    assert!(matches!(result, Ok(Some(c)) if c as u32 == d) && consumed == 3, "C15.esc: \\xHH is the ASCII character HH");
                } else {
                    assert!(result.is_err(), "C15.esc: \\xHH above 7f is an error");
                }
            }
            _ => assert!(result.is_err(), "C15.esc: \\x needs two hex digits"),
        },
        b'u' => {
            if buf[1] == b'{' {
                let mut v: u64 = 0;
                let mut k = 2;
                while k < N && hexval(buf[k]).is_some() {
                    v = v * 16 + hexval(buf[k]).unwrap() as u64;
                    k += 1;
                }
                if k < N && buf[k] == b'}' {
                    let valid = v <= 0x10FFFF && !(v >= 0xD800 && v <= 0xDFFF);
                    if valid {
                        assert!(matches!(result, Ok(Some(c)) if c as u32 as u64 == v) && consumed == k + 1, "C15.esc: backslash-u-braces is the character with that code point");
                    } else {
                        assert!(result.is_err(), "C15.esc: backslash-u-braces outside the Unicode scalar values is an error, never another character");
                    }
                    kani::cover!(k - 2 == 9, "nine hex digits");
                    kani::cover!(valid && v > 0xFFFF, "supplementary plane code point");
                } else {
                    assert!(result.is_err(), "C15.esc: unterminated backslash-u-open-brace is an error");
                }
            } else {
                assert!(result.is_err(), "C15.esc: \\u needs open-brace");
            }
        }
        b'\n' => assert!(matches!(result, Ok(None)), "C15.esc: a line continuation yields no character"),
        b'\r' => assert!(matches!(result, Ok(None)), "C15.esc: a CR line continuation yields no character"),
        _ => assert!(result.is_err(), "C15.esc: any other escape is an error"),
    }
    match result {
        Ok(_) => {}
        Err(e) => std::mem::forget(e),
    }
}
