// Kani harnesses woven into crates/parser/src/string_slice.rs
// @weave crates/parser/src/string_slice.rs
#![allow(unused)]
use super::*;

// A string of up to three characters, each drawn from {a, U+00E9 (2 bytes), U+5B57 (3 bytes), nothing}:
// every mix of 1-, 2- and 3-byte characters up to 9 bytes.  Inputs in order: three selector bytes.
pub(crate) fn any_string3() -> String {
    let mut s = String::with_capacity(16);
    let mut i = 0;
    while i < 3 {
        let k: u8 = kani::any();
        kani::assume(k < 4);
        match k {
            0 => s.push('a'),
            1 => s.push('\u{e9}'),
            2 => s.push('\u{5b57}'),
            _ => {}
        }
        i += 1;
    }
    s
}

pub(crate) fn boundary(b: &[u8], i: usize) -> bool {
    i == b.len() || (i < b.len() && (b[i] & 0xC0) != 0x80)
}

// byte-wise comparison without going through str::eq (keeps the unwinding bound explicit)
pub(crate) fn same_bytes(x: &[u8], y: &[u8]) -> bool {
    if x.len() != y.len() {
        return false;
    }
    let mut i = 0;
    while i < x.len() {
        if x[i] != y[i] {
            return false;
        }
        i += 1;
    }
    true
}

// @props C15 C06
// @fns StringSlice::<usize>::new, StringSlice::as_str (what KString::with_bounds runs for s[i] / s[a..b] on a freshly built string)
// @bound strings of <= 3 characters from {a, U+00E9, U+5B57} (<= 9 bytes), bounds a, b <= 12 without any caller precondition
// @timeout 1800
#[kani::proof]
#[kani::unwind(12)]
fn c15_slice_new() {
    let s = any_string3();
    let len = s.len();
    let copy: [u8; 9] = {
        let mut c = [0u8; 9];
        let mut i = 0;
        while i < len {
            c[i] = s.as_bytes()[i];
            i += 1;
        }
        c
    };
    let text = &copy[..len];
    let a: usize = kani::any();
    let b: usize = kani::any();
    kani::assume(a <= 12 && b <= 12);
    let valid = a <= b && b <= len && boundary(text, a) && boundary(text, b);
    match StringSlice::<usize>::new(Ptr::from(s), a..b) {
        Some(slice) => {
            assert!(valid, "C15.new: a slice is only created for in-range bounds on character boundaries");
            assert!(same_bytes(slice.as_str().as_bytes(), &text[a..b]), "C15.new: the slice is exactly the requested bytes");
        }
        None => assert!(!valid, "C15.new: valid bounds are accepted"),
    }
    kani::cover!(valid && b - a == 3 && len == 6, "a three-byte slice of a six-byte string");
    kani::cover!(!valid && a <= b && b <= len, "in-range bounds that cut a character");
}

// @props C15 C06:thorough
// @fns StringSlice::<usize>::with_bounds, StringSlice::<u16>::with_bounds, StringSlice::try_convert, StringSlice::as_str
// @bound base slice = any valid sub-slice of a string of <= 3 characters from {a, U+00E9, U+5B57}; relative bounds a <= 12, b <= base length (the caller precondition KRange::indices establishes, see c01_range_indices)
// @assume relative end <= length of the base slice (established by every in-repo caller through KRange::indices(len))
// @timeout 1800
#[kani::proof]
#[kani::unwind(12)]
fn c15_slice_with_bounds() {
    let s = any_string3();
    let len = s.len();
    let copy: [u8; 9] = {
        let mut c = [0u8; 9];
        let mut i = 0;
        while i < len {
            c[i] = s.as_bytes()[i];
            i += 1;
        }
        c
    };
    let text = &copy[..len];
    let c: usize = kani::any();
    let d: usize = kani::any();
    kani::assume(c <= d && d <= len && boundary(text, c) && boundary(text, d));
    let data = Ptr::from(s);
    let narrow: bool = kani::any();
    let a: usize = kani::any();
    let b: usize = kani::any();
    kani::assume(a <= 12 && b <= d - c);
    let valid = a <= b && boundary(text, c + a) && boundary(text, c + b);
    let got: Option<(usize, usize)> = if narrow {
        let base = unsafe { StringSlice::<u16>::new_unchecked(data, (c as u16)..(d as u16)) };
        base.with_bounds(a..b).map(|r| (r.bounds.start.to_usize(), r.bounds.end.to_usize()))
    } else {
        let base = unsafe { StringSlice::<usize>::new_unchecked(data, c..d) };
        base.with_bounds(a..b).map(|r| {
            assert!(same_bytes(r.as_str().as_bytes(), &text[c + a..c + b]), "C15.wb: the sub-slice is exactly the requested bytes of the base slice");
            (r.bounds.start, r.bounds.end)
        })
    };
    match got {
        Some((x, y)) => {
            assert!(valid, "C15.wb: a sub-slice is only created on character boundaries");
            assert!(x == c + a && y == c + b, "C15.wb: sub-slice bounds are relative to the base slice");
        }
        None => assert!(!valid, "C15.wb: valid relative bounds are accepted"),
    }
    kani::cover!(valid && c > 0 && a > 0 && b > a, "proper sub-slice of a proper sub-slice");
    kani::cover!(!valid && a <= b, "relative bounds that cut a character");
}

// @props C15 C06:thorough
// @fns StringSlice::<usize>::split, StringSlice::<u16>::split (used by KString::pop_front / pop_back)
// @bound base slice = any valid sub-slice of a string of <= 3 characters; offset <= base length (what pop_front/pop_back pass: a grapheme length)
// @assume offset <= length of the slice (callers pass the length of a grapheme of the slice)
// @timeout 1800
#[kani::proof]
#[kani::unwind(12)]
fn c15_slice_split() {
    let s = any_string3();
    let len = s.len();
    let copy: [u8; 9] = {
        let mut c = [0u8; 9];
        let mut i = 0;
        while i < len {
            c[i] = s.as_bytes()[i];
            i += 1;
        }
        c
    };
    let text = &copy[..len];
    let c: usize = kani::any();
    let d: usize = kani::any();
    kani::assume(c <= d && d <= len && boundary(text, c) && boundary(text, d));
    let off: usize = kani::any();
    kani::assume(off <= d - c);
    let base = unsafe { StringSlice::<usize>::new_unchecked(Ptr::from(s), c..d) };
    match base.split(off) {
        Some((l, r)) => {
            assert!(boundary(text, c + off), "C15.split: a split only happens on a character boundary");
            assert!(l.bounds.start == c && l.bounds.end == c + off && r.bounds.start == c + off && r.bounds.end == d, "C15.split: the two parts tile the slice");
            assert!(same_bytes(l.as_str().as_bytes(), &text[c..c + off]) && same_bytes(r.as_str().as_bytes(), &text[c + off..d]), "C15.split: the parts are the bytes before and after the offset");
        }
        None => assert!(!boundary(text, c + off), "C15.split: a split on a character boundary inside the slice succeeds"),
    }
    kani::cover!(off > 0 && off < d - c && boundary(text, c + off), "split strictly inside");
    kani::cover!(!boundary(text, c + off), "split inside a character");
}
