// Kani harnesses woven into crates/parser/src/string.rs
// @weave crates/parser/src/string.rs
// @config patches=unicode
#![allow(unused)]
use super::*;

fn boundary(b: &[u8], i: usize) -> bool {
    i == b.len() || (i < b.len() && (b[i] & 0xC0) != 0x80)
}

fn same_bytes(x: &[u8], y: &[u8]) -> bool {
    if x.len() != y.len() {
        return false;
    }
    let mut i = 0;
    while i < x.len() {
        if x[i] != y[i] {
            return false;
        }
        i += 1;
    }
    true
}

// ASCII slot: letters that matter to grapheme segmentation
fn put1(buf: &mut [u8], at: usize) {
    let b: u8 = kani::any();
    kani::assume(matches!(b, b'a' | b'\r' | b'\n' | b'\t'));
    buf[at] = b;
}

fn put2(buf: &mut [u8], at: usize) {
    if kani::any() {
        buf[at] = 0xCC; // U+0301 combining acute
        buf[at + 1] = 0x81;
    } else {
        buf[at] = 0xC3; // U+00E9
        buf[at + 1] = 0xA9;
    }
}

fn put3(buf: &mut [u8], at: usize) {
    buf[at] = 0xE5; // U+5B57
    buf[at + 1] = 0xAD;
    buf[at + 2] = 0x97;
}

// length of the first / last extended grapheme cluster of `t` per UAX #29 restricted to the alphabet:
// CR LF is one cluster, other controls stand alone, U+0301 attaches to a preceding non-control character
fn is_ext(t: &[u8], i: usize) -> bool {
    i + 1 < t.len() && t[i] == 0xCC && t[i + 1] == 0x81
}
fn char_len(b: u8) -> usize {
    if b < 0x80 { 1 } else if b < 0xE0 { 2 } else { 3 }
}
fn first_cluster(t: &[u8]) -> usize {
    if t.is_empty() {
        return 0;
    }
    if t[0] == b'\r' {
        return if t.len() > 1 && t[1] == b'\n' { 2 } else { 1 };
    }
    if t[0] < 0x20 {
        return 1;
    }
    let mut n = char_len(t[0]);
    while is_ext(t, n) {
        n += 2;
    }
    n
}
fn last_cluster(t: &[u8]) -> usize {
    let len = t.len();
    if len == 0 {
        return 0;
    }
    if t[len - 1] == b'\n' {
        return if len > 1 && t[len - 2] == b'\r' { 2 } else { 1 };
    }
    if t[len - 1] < 0x20 {
        return 1;
    }
    // walk back over combining marks
    let mut n = 0;
    while len >= n + 2 && t[len - n - 2] == 0xCC && t[len - n - 1] == 0x81 {
        n += 2;
    }
    if n == 0 {
        // a base character
        let mut k = 1;
        while k < 3 && (t[len - k] & 0xC0) == 0x80 {
            k += 1;
        }
        return k;
    }
    if len == n {
        return n;
    }
    // the character before the marks joins them unless it is a control
    let mut k = 1;
    while k < 3 && len - n >= k + 1 && (t[len - n - k] & 0xC0) == 0x80 {
        k += 1;
    }
    if t[len - n - k] < 0x20 { n } else { n + k }
}

// Representations of the same text: 0 = Full, 1 = Slice (u16 bounds) inside "x<text>y", 2 = SliceLarge inside "x<text>y"
fn make(text: &[u8], repr: u8) -> KString {
    let s = unsafe { std::str::from_utf8_unchecked(text) };
    match repr {
        0 => KString::from(s),
        1 => {
            let mut padded = String::with_capacity(text.len() + 2);
            padded.push('x');
            padded.push_str(s);
            padded.push('y');
            let slice = unsafe { StringSlice::<u16>::new_unchecked(Ptr::from(padded), 1..(1 + text.len() as u16)) };
            KString(Inner::Slice(slice))
        }
        _ => {
            let mut padded = String::with_capacity(text.len() + 2);
            padded.push('x');
            padded.push_str(s);
            padded.push('y');
            let slice = unsafe { StringSlice::<usize>::new_unchecked(Ptr::from(padded), 1..(1 + text.len())) };
            KString(Inner::SliceLarge(Ptr::from(slice)))
        }
    }
}

fn pop_check(text: &[u8], repr: u8, front: bool) {
    let mut k = make(text, repr);
    let popped = if front { k.pop_front() } else { k.pop_back() };
    let want = if front { first_cluster(text) } else { last_cluster(text) };
    match popped {
        Some(p) => {
            assert!(!text.is_empty(), "C15.pop: nothing is popped from an empty string");
            let (pb, rb) = (p.as_str().as_bytes(), k.as_str().as_bytes());
            assert!(pb.len() + rb.len() == text.len(), "C15.pop: popped and rest tile the string");
            if front {
                assert!(same_bytes(pb, &text[..pb.len()]) && same_bytes(rb, &text[pb.len()..]), "C15.pop: pop_front splits off a prefix");
            } else {
                assert!(same_bytes(rb, &text[..rb.len()]) && same_bytes(pb, &text[rb.len()..]), "C15.pop: pop_back splits off a suffix");
            }
            assert!(pb.len() == want, "C15.pop: the popped part is one grapheme cluster");
        }
        None => assert!(text.is_empty(), "C15.pop: a non-empty string yields a grapheme"),
    }
}

fn pop_all_shapes(repr: u8, front: bool) {
    {
        let mut b = [0u8; 4];
        put1(&mut b, 0); put1(&mut b, 1); put1(&mut b, 2); put1(&mut b, 3);
        pop_check(&b, repr, front);
    }
    {
        let mut b = [0u8; 4];
        put1(&mut b, 0); put2(&mut b, 1); put1(&mut b, 3);
        pop_check(&b, repr, front);
    }
    {
        let mut b = [0u8; 4];
        put2(&mut b, 0); put2(&mut b, 2);
        pop_check(&b, repr, front);
    }
    {
        let mut b = [0u8; 4];
        put3(&mut b, 0); put1(&mut b, 3);
        pop_check(&b, repr, front);
    }
    {
        let mut b = [0u8; 4];
        put1(&mut b, 0); put3(&mut b, 1);
        pop_check(&b, repr, front);
    }
    kani::cover!(true, "the end of the harness is reached past every obligation");
}

// @props C15 C06 C13
// @tier quick
// @fns KString::pop_front (Full representation), StringSlice::split, From<StringSlice<usize>> for KString, the grapheme segmentation model
// @bound text of 4 bytes in UTF-8 shapes [1,1,1,1], [1,2,1], [2,2], [3,1], [1,3]; ASCII slots in {a, CR, LF, tab}, 2-byte slots in {U+00E9, U+0301}, 3-byte slot U+5B57
// @timeout 2400
// @mem 8
#[kani::proof]
#[kani::unwind(8)]
fn c15_kstring_pop_front_full() {
    pop_all_shapes(0, true);
}

// @props C15 C06:thorough C13:thorough
// @tier thorough
// @fns KString::pop_back (Full representation), StringSlice::split, From<StringSlice<usize>> for KString, the grapheme segmentation model
// @bound text of 4 bytes in UTF-8 shapes [1,1,1,1], [1,2,1], [2,2], [3,1], [1,3]; ASCII slots in {a, CR, LF, tab}, 2-byte slots in {U+00E9, U+0301}, 3-byte slot U+5B57
// @timeout 2400
// @mem 8
#[kani::proof]
#[kani::unwind(8)]
fn c15_kstring_pop_back_full() {
    pop_all_shapes(0, false);
}

// @props C15 C06:thorough C13:thorough
// @tier thorough
// @fns KString::pop_front (Slice (u16 bounds) representation), StringSlice::split, From<StringSlice<usize>> for KString, the grapheme segmentation model
// @bound text of 4 bytes in UTF-8 shapes [1,1,1,1], [1,2,1], [2,2], [3,1], [1,3]; ASCII slots in {a, CR, LF, tab}, 2-byte slots in {U+00E9, U+0301}, 3-byte slot U+5B57
// @timeout 2400
// @mem 8
#[kani::proof]
#[kani::unwind(8)]
fn c15_kstring_pop_front_slice() {
    pop_all_shapes(1, true);
}

// @props C15 C06:thorough C13:thorough
// @tier quick
// @fns KString::pop_back (Slice (u16 bounds) representation), StringSlice::split, From<StringSlice<usize>> for KString, the grapheme segmentation model
// @bound text of 4 bytes in UTF-8 shapes [1,1,1,1], [1,2,1], [2,2], [3,1], [1,3]; ASCII slots in {a, CR, LF, tab}, 2-byte slots in {U+00E9, U+0301}, 3-byte slot U+5B57
// @timeout 2400
// @mem 8
#[kani::proof]
#[kani::unwind(8)]
fn c15_kstring_pop_back_slice() {
    pop_all_shapes(1, false);
}

// @props C15 C06 C13
// @tier thorough
// @fns KString::pop_front (SliceLarge (boxed) representation), StringSlice::split, From<StringSlice<usize>> for KString, the grapheme segmentation model
// @bound text of 4 bytes in UTF-8 shapes [1,1,1,1], [1,2,1], [2,2], [3,1], [1,3]; ASCII slots in {a, CR, LF, tab}, 2-byte slots in {U+00E9, U+0301}, 3-byte slot U+5B57
// @timeout 2400
// @mem 8
#[kani::proof]
#[kani::unwind(8)]
fn c15_kstring_pop_front_large() {
    pop_all_shapes(2, true);
}

// @props C15 C06 C13
// @tier thorough
// @fns KString::pop_back (SliceLarge (boxed) representation), StringSlice::split, From<StringSlice<usize>> for KString, the grapheme segmentation model
// @bound text of 4 bytes in UTF-8 shapes [1,1,1,1], [1,2,1], [2,2], [3,1], [1,3]; ASCII slots in {a, CR, LF, tab}, 2-byte slots in {U+00E9, U+0301}, 3-byte slot U+5B57
// @timeout 2400
// @mem 8
#[kani::proof]
#[kani::unwind(8)]
fn c15_kstring_pop_back_large() {
    pop_all_shapes(2, false);
}

// @props C15 C06
// @fns KString::with_bounds (Full, Slice, SliceLarge arms), StringSlice::new, StringSlice::with_bounds, KString::as_str
// @bound text "a U+00E9 U+5B57 a" in each representation; bounds a <= 9, b <= 7 = len (caller precondition from KRange::indices)
// @assume end <= string length (established by KRange::indices(len) in run_index)
// @timeout 2400
#[kani::proof]
#[kani::unwind(10)]
fn c15_kstring_with_bounds() {
    let text: [u8; 7] = [b'a', 0xC3, 0xA9, 0xE5, 0xAD, 0x97, b'a'];
    let repr: u8 = kani::any();
    kani::assume(repr < 3);
    let k = make(&text, repr);
    let a: usize = kani::any();
    let b: usize = kani::any();
    kani::assume(a <= 9 && b <= 7);
    let valid = a <= b && boundary(&text, a) && boundary(&text, b);
    match k.with_bounds(a..b) {
        Some(r) => {
            assert!(valid, "C15.kwb: a sub-string is only created on character boundaries");
            assert!(same_bytes(r.as_str().as_bytes(), &text[a..b]), "C15.kwb: the sub-string is exactly the requested bytes");
        }
        None => assert!(!valid, "C15.kwb: valid bounds are accepted"),
    }
    kani::cover!(valid && a == 1 && b == 6, "slice covering the two multi-byte characters");
    kani::cover!(!valid && a < b, "bounds cutting a character");
}

struct Rec(u64, u32);
impl Hasher for Rec {
    fn finish(&self) -> u64 { self.0 }
    fn write(&mut self, bytes: &[u8]) {
        let mut i = 0;
        while i < bytes.len() {
            self.0 = self.0.rotate_left(5) ^ bytes[i] as u64;
            i += 1;
        }
        self.1 += 1;
    }
}

// @props C14
// @fns impl PartialEq / Ord / Hash for KString across the Full, Slice and SliceLarge representations
// @bound two texts of 3 bytes (shapes [1,1,1] and [1,2]), each in any representation
// @timeout 2400
#[kani::proof]
#[kani::unwind(8)]
fn c14_kstring_repr() {
    let mut x = [0u8; 3];
    let mut y = [0u8; 3];
    if kani::any() {
        put1(&mut x, 0); put1(&mut x, 1); put1(&mut x, 2);
        put1(&mut y, 0); put1(&mut y, 1); put1(&mut y, 2);
    } else {
        put1(&mut x, 0); put2(&mut x, 1);
        put1(&mut y, 0); put2(&mut y, 1);
    }
    let (rx, ry): (u8, u8) = (kani::any(), kani::any());
    kani::assume(rx < 3 && ry < 3);
    let (kx, ky) = (make(&x, rx), make(&y, ry));
    let text_eq = same_bytes(&x, &y);
    assert!((kx == ky) == text_eq, "C14.str: strings are equal iff their text is, whatever the representation");
    assert!((kx.cmp(&ky) == Ordering::Equal) == text_eq, "C14.str: cmp is Equal iff the text is equal");
    let mut lt = false;
    let mut i = 0;
    let mut decided = false;
    while i < 3 {
        if !decided && x[i] != y[i] {
            lt = x[i] < y[i];
            decided = true;
        }
        i += 1;
    }
    assert!((kx < ky) == (decided && lt), "C14.str: < is bytewise lexicographic order");
    let (mut hx, mut hy) = (Rec(0, 0), Rec(0, 0));
    kx.hash(&mut hx);
    ky.hash(&mut hy);
    if text_eq {
        assert!(hx.0 == hy.0 && hx.1 == hy.1, "C14.str: equal strings hash equally across representations");
    }
    kani::cover!(text_eq && rx != ry, "equal text in different representations");
    kani::cover!(decided && lt, "x < y");
}
