// Kani harnesses woven into crates/parser/src/string_format_options.rs
// @weave crates/parser/src/string_format_options.rs
// @config patches=unicode
#![allow(unused)]
use super::*;

// Environment stub: the constant pool (HashMap + SipHash, hashbrown's SSE2 probing is not supported by Kani)
// is replaced by a function that accepts every string and hands out index 0.
fn stub_add_string(_pool: &mut ConstantPoolBuilder, _s: &str) -> Result<ConstantIndex, crate::error::InternalError> {
    Ok(ConstantIndex::from(0))
}

fn stub_random_state() -> std::hash::RandomState {
    unsafe { std::mem::transmute([1u64, 2u64]) }
}

fn digit(b: u8) -> bool {
    b >= b'0' && b <= b'9'
}

// @props C15 C06
// @fns consume_u32 (width / precision numbers of a format spec)
// @bound first digit + up to 10 further symbolic characters from {0-9, x}: every number of up to 11 digits, i.e. across the u32 boundary
// @kani --no-memory-safety-checks --no-assertion-reach-checks
#[kani::proof]
#[kani::unwind(13)]
fn c15_fmt_consume_u32() {
    let mut buf = [0u8; 11];
    let mut i = 0;
    while i < 11 {
        let b: u8 = kani::any();
        kani::assume(digit(b) || b == b'x');
        buf[i] = b;
        i += 1;
    }
    kani::assume(digit(buf[0]));
    let s = unsafe { std::str::from_utf8_unchecked(&buf) };
    let mut chars = s.chars().peekable();
    let first = chars.next().unwrap();
    // oracle: value of the maximal digit run, in u64 (11 digits fit)
    let mut v: u64 = 0;
    let mut n = 0;
    while n < 11 && digit(buf[n]) {
        v = v * 10 + (buf[n] - b'0') as u64;
        n += 1;
    }
    match consume_u32(first, &mut chars) {
        Ok(x) => {
            assert!(v <= u32::MAX as u64 && x as u64 == v, "C15.fmt: a width/precision number is read exactly");
            let rest = match chars.peek() { Some(c) => *c as u32 as u8, None => 0 };
            assert!(if n < 11 { rest == buf[n] } else { rest == 0 }, "C15.fmt: exactly the digit run is consumed");
        }
        Err(StringFormatError::FormatNumberIsTooLarge(_)) => assert!(v > u32::MAX as u64, "C15.fmt: only numbers beyond u32::MAX are rejected as too large"),
        Err(_) => assert!(false, "C15.fmt: a digit run is a number"),
    }
    kani::cover!(v == u32::MAX as u64, "exactly u32::MAX");
    kani::cover!(v == u32::MAX as u64 + 1, "one past u32::MAX");
}

fn put_spec(buf: &mut [u8], at: usize) {
    let b: u8 = kani::any();
    kani::assume(matches!(b, b'<' | b'^' | b'>' | b'0' | b'1' | b'9' | b'.' | b'?' | b'x' | b'e' | b'}' | b' ' | b'a'));
    buf[at] = b;
}

fn put2(buf: &mut [u8], at: usize) {
    if kani::any() {
        buf[at] = 0xCC;
        buf[at + 1] = 0x81;
    } else {
        buf[at] = 0xC3;
        buf[at + 1] = 0xA9;
    }
}

fn parse_check(buf: &[u8]) {
    let s = unsafe { std::str::from_utf8_unchecked(buf) };
    let mut pool = ConstantPoolBuilder::default();
    let r = StringFormatOptions::parse(s, &mut pool);
    std::mem::forget(pool);
    let all_digits = {
        let mut ok = true;
        let mut i = 0;
        while i < buf.len() {
            ok &= digit(buf[i]);
            i += 1;
        }
        ok
    };
    if let Ok(o) = r {
        if all_digits && (buf.len() == 1 || buf[0] != b'0') {
            let mut v: u32 = 0;
            let mut i = 0;
            while i < buf.len() {
                v = v * 10 + (buf[i] - b'0') as u32;
                i += 1;
            }
            assert!(o.min_width == Some(v) && o.precision.is_none() && o.fill_character.is_none() && o.alignment == StringAlignment::Default && o.representation.is_none(),
                "C15.fmt: an all-digit spec is the minimum width");
        }
        if buf.len() == 3 && digit(buf[0]) && buf[0] != b'0' && buf[1] == b'.' && digit(buf[2]) {
            assert!(o.min_width == Some((buf[0] - b'0') as u32) && o.precision == Some((buf[2] - b'0') as u32), "C15.fmt: w.p gives width and precision");
        }
        if buf.len() >= 2 && matches!(buf[1], b'<' | b'^' | b'>') && buf[0] < 0x80 {
            let want = match buf[1] { b'<' => StringAlignment::Left, b'^' => StringAlignment::Center, _ => StringAlignment::Right };
            assert!(o.fill_character.is_some() && o.alignment == want, "C15.fmt: fill character followed by an alignment");
        }
        if buf.len() == 4 && buf[0] >= 0x80 && matches!(buf[2], b'<' | b'^' | b'>') && digit(buf[3]) && buf[3] != b'0' {
            assert!(o.fill_character.is_some() && o.min_width == Some((buf[3] - b'0') as u32), "C15.fmt: multi-byte fill, alignment, width");
        }
        kani::cover!(true, "a format spec parsed successfully");
    }
}

// @props C15 C06:thorough
// @tier quick
// @fns StringFormatOptions::parse, consume_u32
// @bound format specs in UTF-8 shape [1] over {< ^ > 0 1 9 . ? x e close-brace space a} and 2-byte slots {U+00E9, U+0301}
// @assume ConstantPoolBuilder::add_string replaced by a stub that accepts every string (the pool is a HashMap; not the subject)
// @timeout 1500
// @mem 8
// @kani --no-memory-safety-checks --no-assertion-reach-checks
#[kani::proof]
#[kani::unwind(3)]
#[kani::stub(ConstantPoolBuilder::add_string, stub_add_string)]
#[kani::stub(std::hash::RandomState::new, stub_random_state)]
fn c15_fmt_parse_s1() {
    let mut b = [0u8; 1];
    put_spec(&mut b, 0);
    parse_check(&b);
}

// @props C15 C06
// @tier quick
// @fns StringFormatOptions::parse, consume_u32
// @bound format specs in UTF-8 shape [1,1] over {< ^ > 0 1 9 . ? x e close-brace space a} and 2-byte slots {U+00E9, U+0301}
// @assume ConstantPoolBuilder::add_string replaced by a stub that accepts every string (the pool is a HashMap; not the subject)
// @timeout 1500
// @mem 8
// @kani --no-memory-safety-checks --no-assertion-reach-checks
#[kani::proof]
#[kani::unwind(4)]
#[kani::stub(ConstantPoolBuilder::add_string, stub_add_string)]
#[kani::stub(std::hash::RandomState::new, stub_random_state)]
fn c15_fmt_parse_s11() {
    let mut b = [0u8; 2];
    put_spec(&mut b, 0); put_spec(&mut b, 1);
    parse_check(&b);
}

// @props C15 C06:thorough
// @tier thorough
// @fns StringFormatOptions::parse, consume_u32
// @bound format specs in UTF-8 shape [1,1,1] over {< ^ > 0 1 9 . ? x e close-brace space a} and 2-byte slots {U+00E9, U+0301}
// @assume ConstantPoolBuilder::add_string replaced by a stub that accepts every string (the pool is a HashMap; not the subject)
// @timeout 2400
// @mem 16
// @kani --no-memory-safety-checks --no-assertion-reach-checks
#[kani::proof]
#[kani::unwind(5)]
#[kani::stub(ConstantPoolBuilder::add_string, stub_add_string)]
#[kani::stub(std::hash::RandomState::new, stub_random_state)]
fn c15_fmt_parse_s111() {
    let mut b = [0u8; 3];
    put_spec(&mut b, 0); put_spec(&mut b, 1); put_spec(&mut b, 2);
    parse_check(&b);
}

// @props C15 C06:thorough
// @tier thorough
// @fns StringFormatOptions::parse, consume_u32
// @bound format specs in UTF-8 shape [2,1,1] over {< ^ > 0 1 9 . ? x e close-brace space a} and 2-byte slots {U+00E9, U+0301}
// @assume ConstantPoolBuilder::add_string replaced by a stub that accepts every string (the pool is a HashMap; not the subject)
// @timeout 2400
// @mem 16
// @kani --no-memory-safety-checks --no-assertion-reach-checks
#[kani::proof]
#[kani::unwind(6)]
#[kani::stub(ConstantPoolBuilder::add_string, stub_add_string)]
#[kani::stub(std::hash::RandomState::new, stub_random_state)]
fn c15_fmt_parse_s211() {
    let mut b = [0u8; 4];
    put2(&mut b, 0); put_spec(&mut b, 2); put_spec(&mut b, 3);
    parse_check(&b);
}

// @props C15 C06
// @tier thorough
// @fns StringFormatOptions::parse, consume_u32
// @bound format specs in UTF-8 shape [1,1,1,1] over {< ^ > 0 1 9 . ? x e close-brace space a} and 2-byte slots {U+00E9, U+0301}
// @assume ConstantPoolBuilder::add_string replaced by a stub that accepts every string (the pool is a HashMap; not the subject)
// @timeout 1500
// @mem 16
// @kani --no-memory-safety-checks --no-assertion-reach-checks
#[kani::proof]
#[kani::unwind(6)]
#[kani::stub(ConstantPoolBuilder::add_string, stub_add_string)]
#[kani::stub(std::hash::RandomState::new, stub_random_state)]
fn c15_fmt_parse_s1111() {
    let mut b = [0u8; 4];
    put_spec(&mut b, 0); put_spec(&mut b, 1); put_spec(&mut b, 2); put_spec(&mut b, 3);
    parse_check(&b);
}

