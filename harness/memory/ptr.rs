// Kani harnesses woven into crates/memory/src/ptr.rs
// @weave crates/memory/src/ptr.rs
#![allow(unused)]
use super::*;

fn ptr_script() {
    let v: u32 = kani::any();
    let w: u32 = kani::any();
    let mut a: Ptr<u32> = Ptr::from(v);
    assert!(*a == v && Ptr::ref_count(&a) == 1, "C19.ptr: a fresh pointer is unique");
    let shared: bool = kani::any();
    let b = if shared { Some(a.clone()) } else { None };
    assert!(Ptr::ref_count(&a) == if shared { 2 } else { 1 }, "C19.ptr: clone increments the count");
    // make_mut: copy on write when shared, in place when unique (what KRange::pop_* and KString::pop_* rely on)
    *Ptr::make_mut(&mut a) = w;
    assert!(*a == w, "C19.ptr: make_mut gives access to the value");
    assert!(Ptr::ref_count(&a) == 1, "C19.ptr: after make_mut the pointer is unique");
    if let Some(b) = b.as_ref() {
        assert!(**b == v && !Ptr::ptr_eq(&a, b), "C19.ptr: make_mut never changes what other owners see");
    }
    assert!((a == Ptr::<u32>::from(w)) && (Ptr::<u32>::from(v) < Ptr::<u32>::from(w)) == (v < w), "C19.ptr: comparisons go through to the value");
    kani::cover!(shared && v != w, "copy on write");
}

// @props C19
// @fns Ptr::from, Ptr::clone, Ptr::ref_count, Ptr::make_mut, Ptr::ptr_eq, PartialEq / PartialOrd for Ptr under feature rc
// @bound values symbolic u32, shared or unique
#[kani::proof]
fn c19_ptr_rc() {
    ptr_script();
}

// @props C19
// @fns the same under feature arc (std::sync::Arc)
// @bound as c19_ptr_rc
// @config features=arc
#[kani::proof]
fn c19_ptr_arc() {
    ptr_script();
}
