// Kani harnesses woven into crates/memory/src/ptr_mut.rs: the shared-cell API under both memory strategies.
// The same script is checked against one abstract model (reader count, writer flag, value) under the `rc`
// build (Rc<RefCell>) and the `arc` build (Arc<parking_lot::RwLock>): any sequential behavioural difference
// between the strategies fails one of the two harnesses.
// @weave crates/memory/src/ptr_mut.rs
#![allow(unused)]
use super::*;

const STEPS: usize = 4;

// Work-around for a kani-compiler 0.68 internal error on catch_unwind (reached through the destructor
// registration of parking_lot_core's thread-local ThreadData); thread exit is never reached by the script.
fn noop_thread_cleanup() {}

fn script() {
    let init: u32 = kani::any();
    let cell: PtrMut<u32> = PtrMut::from(init);
    let mut other: Option<PtrMut<u32>> = None;
    // abstract model
    let mut value = init;
    let mut readers = 0u32;
    let mut writer = false;
    let mut refs = 1usize;
    // live guards
    let mut r1: Option<Borrow<'_, u32>> = None;
    let mut r2: Option<Borrow<'_, u32>> = None;
    let mut w: Option<BorrowMut<'_, u32>> = None;
    let mut step = 0;
    while step < STEPS {
        let op: u8 = kani::any();
        kani::assume(op < 9);
        match op {
            0 => {
                let got = cell.try_borrow();
                assert!(got.is_some() == !writer, "C19.cell: try_borrow succeeds exactly when no writer is live");
                if let Some(g) = got {
                    assert!(*g == value, "C19.cell: a reader sees the last written value");
                    if r1.is_none() {
                        r1 = Some(g);
                        readers += 1;
                    } else if r2.is_none() {
                        r2 = Some(g);
                        readers += 1;
                    }
                }
            }
            1 => {
                let got = cell.try_borrow_mut();
                assert!(got.is_some() == (!writer && readers == 0), "C19.cell: try_borrow_mut succeeds exactly when no guard is live");
                if let Some(g) = got {
                    assert!(*g == value, "C19.cell: a writer sees the last written value");
                    w = Some(g);
                    writer = true;
                }
            }
            2 => {
                if r1.take().is_some() {
                    readers -= 1;
                }
            }
            3 => {
                if r2.take().is_some() {
                    readers -= 1;
                }
            }
            4 => {
                if w.take().is_some() {
                    writer = false;
                }
            }
            5 => {
                if let Some(g) = w.as_mut() {
                    let v: u32 = kani::any();
                    **g = v;
                    value = v;
                }
            }
            6 => {
                if let Some(g) = r1.as_ref() {
                    assert!(**g == value, "C19.cell: a live reader keeps seeing the value");
                }
                if let Some(g) = w.as_ref() {
                    assert!(**g == value, "C19.cell: a live writer reads back what it wrote");
                }
            }
            7 => {
                if other.is_none() {
                    other = Some(cell.clone());
                    refs += 1;
                } else {
                    other = None;
                    refs -= 1;
                }
                assert!(Ptr::ref_count(&cell) == refs, "C19.ptr: ref_count counts the clones");
            }
            _ => {
                // blocking borrows, only where they cannot block: same outcome under both strategies
                if !writer && readers == 0 {
                    {
                        let mut g = cell.borrow_mut();
                        let v: u32 = kani::any();
                        *g = v;
                        value = v;
                    }
                    assert!(*cell.borrow() == value, "C19.cell: borrow after borrow_mut sees the write");
                }
            }
        }
        step += 1;
    }
    if let Some(o) = other.as_ref() {
        assert!(Ptr::ptr_eq(o, &cell), "C19.ptr: a clone shares the allocation");
        if !writer {
            assert!(o.try_borrow().map(|g| *g) == Some(value), "C19.ptr: a clone sees writes made through the original");
        }
    }
    kani::cover!(readers == 2, "two live readers");
    kani::cover!(writer && value != init, "a live writer after a write");
    drop(r1);
    drop(r2);
    drop(w);
}

// @props C19
// @fns KCell::try_borrow / try_borrow_mut / borrow / borrow_mut, Borrow / BorrowMut deref and drop, Ptr::clone / ref_count / ptr_eq under feature rc (std::rc::Rc + std::cell::RefCell)
// @bound every sequence of 4 operations out of 9 (try_borrow, try_borrow_mut, drop reader 1, drop reader 2, drop writer, write, read, clone/unclone, blocking borrow pair) on one PtrMut<u32>; values symbolic; single thread
// @assume sequential execution only: Kani does not model threads, atomicity under concurrency is outside the claim
// @timeout 1200
// @mem 10
#[kani::proof]
#[kani::unwind(6)]
fn c19_cell_protocol_rc() {
    script();
}

// @props C19
// @fns the same API under feature arc (std::sync::Arc + parking_lot::RwLock: try_read / try_write / read / write fast paths, MappedRwLock guards)
// @bound as c19_cell_protocol_rc
// @assume sequential execution only; parking_lot's parking slow path must be unreachable (asserted by CBMC's reachability of its unsupported constructs)
// @config features=arc
// @timeout 1800
// @mem 12
#[kani::proof]
#[kani::unwind(6)]
#[kani::stub(std::rt::thread_cleanup, noop_thread_cleanup)]
fn c19_cell_protocol_arc() {
    script();
}
