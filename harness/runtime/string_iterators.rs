// Kani harnesses woven into crates/runtime/src/core_lib/string/iterators.rs: the string iterators behind
// `string.lines`, `string.split`, `string.bytes` and `string.char_indices`.  Outputs are strings / numbers / ranges of
// statically known variant, inspected and forgotten (DESIGN §2.6 item 6).
// @weave crates/runtime/src/core_lib/string/iterators.rs
// @config patches=unicode
#![allow(unused)]
use super::*;

fn put(buf: &mut [u8], at: usize) {
    let b: u8 = kani::any();
    kani::assume(matches!(b, b'a' | b',' | b'\n' | b'\r'));
    buf[at] = b;
}

fn same_bytes(x: &[u8], y: &[u8]) -> bool {
    if x.len() != y.len() {
        return false;
    }
    let mut i = 0;
    while i < x.len() {
        if x[i] != y[i] {
            return false;
        }
        i += 1;
    }
    true
}

// copies the piece into `out` at `at`, returns its length; None if the output is not a string
fn take_str(o: Option<Output>, out: &mut [u8; 16], at: usize) -> Option<Option<usize>> {
    let r = match &o {
        Some(Output::Value(KValue::Str(s))) => {
            let b = s.as_bytes();
            let mut i = 0;
            while i < b.len() && at + i < 16 {
                out[at + i] = b[i];
                i += 1;
            }
            Some(Some(b.len()))
        }
        Some(_) => Some(None),
        None => None,
    };
    std::mem::forget(o);
    r
}

fn split_case(text: &[u8], pattern: &[u8]) {
    let input = KString::from(unsafe { std::str::from_utf8_unchecked(text) });
    let pat = KString::from(unsafe { std::str::from_utf8_unchecked(pattern) });
    let mut it = Split::new(input, pat);
    // re-join the pieces with the pattern
    let mut joined = [0u8; 16];
    let mut n = 0;
    let mut pieces = 0;
    let mut k = 0;
    while k < 5 {
        let _ = it.size_hint(); // consumers (to_tuple, to_list ...) ask for it at any time, also after the end
        match take_str(it.next(), &mut joined, n) {
            Some(Some(len)) => {
                n += len;
                pieces += 1;
                // a separator follows every piece except the last
                let mut j = 0;
                while j < pattern.len() {
                    joined[n + j] = pattern[j];
                    j += 1;
                }
                n += pattern.len();
            }
            Some(None) => assert!(false, "C15.split: split yields strings"),
            None => {}
        }
        k += 1;
    }
    let _ = it.size_hint();
    assert!(pieces >= 1 && n >= pattern.len(), "C15.split: split yields at least one piece");
    assert!(same_bytes(&joined[..n - pattern.len()], text), "C15.split: the pieces re-joined with the pattern reproduce the string");
    std::mem::forget(it);
    kani::cover!(true, "the end of the harness is reached past every obligation");
}

// @props C15 C06 C13
// @tier thorough
// @fns Split::new, Split::next, Split::size_hint (string.split with a string pattern) - str::find(&str) is std's two-way searcher: did not finish in 1500 s even for a 3-byte input and a 1-byte pattern; kept as a thorough rung
// @bound input of 3 symbolic bytes over {a, comma, LF, CR}; pattern ","; 5 pulls (more than the 4 pieces possible), size_hint queried before every pull and after the end
// @timeout 1500
// @mem 12
// @kani --no-memory-safety-checks --no-assertion-reach-checks
#[kani::proof]
#[kani::unwind(7)]
fn c15_string_split() {
    let mut t = [0u8; 3];
    put(&mut t, 0);
    put(&mut t, 1);
    put(&mut t, 2);
    split_case(&t, b",");
}

// @props C15 C06 C13
// @tier thorough
// @fns Split::next with a two-byte pattern
// @bound input of 3 symbolic bytes over {a, comma, LF, CR}; pattern ",a"
// @timeout 2400
// @mem 16
// @kani --no-memory-safety-checks --no-assertion-reach-checks
#[kani::proof]
#[kani::unwind(7)]
fn c15_string_split2() {
    let mut t = [0u8; 3];
    put(&mut t, 0);
    put(&mut t, 1);
    put(&mut t, 2);
    split_case(&t, b",a");
}

fn lines_case(text: &[u8]) {
    let input = KString::from(unsafe { std::str::from_utf8_unchecked(text) });
    let mut it = Lines::new(input);
    // oracle: terminators are LF or CR LF; the text after the last terminator is a line unless it is empty
    let mut pos = 0;
    let mut k = 0;
    while k < 4 {
        let _ = it.size_hint();
        let mut piece = [0u8; 16];
        let got = take_str(it.next(), &mut piece, 0);
        if pos < text.len() {
            let mut e = pos;
            while e < text.len() && text[e] != b'\n' {
                e += 1;
            }
            let line_end = if e < text.len() && e > pos && text[e - 1] == b'\r' { e - 1 } else { e };
            match got {
                Some(Some(len)) => assert!(len == line_end - pos && same_bytes(&piece[..len], &text[pos..line_end]), "C15.lines: each line is the text up to the next LF or CR LF, without the terminator"),
                _ => assert!(false, "C15.lines: a line is produced while text remains"),
            }
            pos = e + 1;
        } else {
            assert!(got.is_none(), "C15.lines: nothing after the last line");
        }
        k += 1;
    }
    let _ = it.size_hint();
    std::mem::forget(it);
    kani::cover!(true, "the end of the harness is reached past every obligation");
}

// @props C15 C06 C13
// @fns Lines::new, Lines::next, Lines::size_hint (string.lines)
// @bound input of 3 symbolic bytes over {a, comma, LF, CR}; 4 pulls, size_hint queried before every pull and after the end
// @timeout 1500
// @mem 12
// @kani --no-memory-safety-checks --no-assertion-reach-checks
#[kani::proof]
#[kani::unwind(6)]
fn c15_string_lines() {
    let mut t = [0u8; 3];
    put(&mut t, 0);
    put(&mut t, 1);
    put(&mut t, 2);
    lines_case(&t);
}

// @props C15 C06 C13
// @tier thorough
// @fns Bytes::next, Bytes::size_hint, CharIndices::next, CharIndices::size_hint (string.bytes, string.char_indices, and through them string.chars)
// @bound text "c U+00E9 c" / "c U+0301 c" with c symbolic over {a, comma, LF, CR} (4 bytes): bytes in order; char_indices yields ranges that tile the string at grapheme boundaries (so joining the characters reproduces the string)
// @timeout 1500
// @mem 12
// @kani --no-memory-safety-checks --no-assertion-reach-checks
#[kani::proof]
#[kani::unwind(8)]
fn c15_string_bytes_and_chars() {
    let mut t = [0u8; 4];
    put(&mut t, 0);
    if kani::any() {
        t[1] = 0xC3;
        t[2] = 0xA9;
    } else {
        t[1] = 0xCC;
        t[2] = 0x81;
    }
    put(&mut t, 3);
    let s = unsafe { std::str::from_utf8_unchecked(&t) };
    let mut bytes = Bytes::new(KString::from(s));
    let mut i = 0;
    while i < 5 {
        let _ = bytes.size_hint();
        let o = bytes.next();
        let got = match &o {
            Some(Output::Value(KValue::Number(KNumber::I64(n)))) => Some(*n),
            Some(_) => Some(-1),
            None => None,
        };
        std::mem::forget(o);
        assert!(got == if i < 4 { Some(t[i] as i64) } else { None }, "C15.bytes: bytes yields the bytes of the string in order");
        i += 1;
    }
    std::mem::forget(bytes);
    let mut chars = CharIndices::new(KString::from(s));
    let mut pos = 0usize;
    let mut k = 0;
    while k < 5 {
        let _ = chars.size_hint();
        let o = chars.next();
        let got = match &o {
            Some(Output::Value(KValue::Range(r))) => Some((r.start(), r.end())),
            Some(_) => Some((None, None)),
            None => None,
        };
        std::mem::forget(o);
        match got {
            Some((Some(a), Some((b, false)))) => {
                assert!(a as usize == pos && (b as usize) > pos && (b as usize) <= 4, "C15.chars: character ranges tile the string without gaps or overlaps");
                assert!((t[b as usize % 4] & 0xC0) != 0x80 || b as usize == 4, "C15.chars: a character ends on a character boundary");
                pos = b as usize;
            }
            Some(_) => assert!(false, "C15.chars: char_indices yields half-open ranges"),
            None => assert!(pos == 4, "C15.chars: the ranges cover the whole string"),
        }
        k += 1;
    }
    std::mem::forget(chars);
    kani::cover!(true, "the end of the harness is reached past every obligation");
}
