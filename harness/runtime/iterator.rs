// Kani harnesses woven into crates/runtime/src/types/iterator.rs: cursor state machines of the source iterators.
// Outputs are created and forgotten, never dropped or cloned beyond Null/Number (DESIGN §2.6 item 6).
// @weave crates/runtime/src/types/iterator.rs
#![allow(unused)]
use super::*;

fn out_u8(o: Option<KIteratorOutput>) -> Option<i64> {
    let r = match &o {
        Some(KIteratorOutput::Value(KValue::Number(KNumber::I64(n)))) => Some(*n),
        Some(_) => Some(-1),
        None => None,
    };
    std::mem::forget(o);
    r
}

// @props C13 C06
// @fns ByteIterator::new, ByteIterator::next, ByteIterator::next_back, ByteIterator::is_bidirectional
// @bound 3 symbolic bytes, 4 pops from symbolically chosen ends: every interleaving of next / next_back including exhaustion; oracle: a two-ended queue over the byte array
// @timeout 1500
#[kani::proof]
#[kani::unwind(6)]
fn c13_bytes_two_ended() {
    let data: [u8; 3] = kani::any();
    let bytes: Ptr<[u8]> = Ptr::from(&data[..]);
    let mut it = ByteIterator::new(bytes);
    assert!(it.is_bidirectional(), "C13.bytes: byte iterators are bidirectional");
    let mut lo = 0usize;
    let mut hi = 3usize;
    let mut k = 0;
    while k < 4 {
        let front: bool = kani::any();
        let got = out_u8(if front { it.next() } else { it.next_back() });
        if lo < hi {
            let want = if front { data[lo] } else { data[hi - 1] };
            assert!(got == Some(want as i64), "C13.bytes: next / next_back yield the elements of the sequence from its two ends");
            if front { lo += 1 } else { hi -= 1 }
        } else {
            assert!(got.is_none(), "C13.bytes: an exhausted iterator yields nothing from either end");
        }
        k += 1;
    }
    kani::cover!(lo == 1 && hi == 1, "one from the front, two from the back");
    kani::cover!(lo == hi && lo == 3, "everything from the front, then exhausted");
    std::mem::forget(it);
}

// DROPPED: the cursor harness for TupleIterator (3 Null elements, 4 pops from either end): get_output clones a KValue
// read back from the tuple's heap buffer, i.e. of statically unknown variant (DESIGN §2.6 items 6-7) - no result in 1800 s.
