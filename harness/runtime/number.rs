// Kani harnesses woven into crates/runtime/src/types/number.rs (child module, sees private items).
// @weave crates/runtime/src/types/number.rs
use super::*;

fn any_num() -> KNumber {
    let is_int: bool = kani::any();
    let bits: u64 = kani::any();
    if is_int {
        KNumber::I64(bits as i64)
    } else {
        KNumber::F64(f64::from_bits(bits))
    }
}

struct Rec(u64, u32);
impl Hasher for Rec {
    fn finish(&self) -> u64 {
        self.0
    }
    fn write(&mut self, bytes: &[u8]) {
        // number hashing only ever calls write_u64; any other call makes hashes differ
        self.1 += 1 + bytes.len() as u32;
    }
    fn write_u64(&mut self, n: u64) {
        self.0 = self.0.rotate_left(7) ^ n;
        self.1 += 100;
    }
}

// @props C14
// @fns KNumber::hash, KNumber::eq
// @bound full 64-bit, both kinds
#[kani::proof]
fn c14_heq() {
    let a = any_num();
    let b = any_num();
    let mut ha = Rec(0, 0);
    let mut hb = Rec(0, 0);
    a.hash(&mut ha);
    b.hash(&mut hb);
    if a == b {
        assert!(ha.0 == hb.0 && ha.1 == hb.1, "C14.heq: equal numbers hash equally");
    }
    kani::cover!(a == b && a.is_f64() != b.is_f64(), "equal mixed-kind pair");
}

// @props C01
// @fns KNumber::add
// @bound full i64 x i64
#[kani::proof]
fn c01_int_add() {
    let a: i64 = kani::any();
    let b: i64 = kani::any();
    let r = KNumber::I64(a) + KNumber::I64(b);
    let expect = ((a as i128 + b as i128) as u128 & 0xffff_ffff_ffff_ffff) as u64 as i64;
    assert!(matches!(r, KNumber::I64(x) if x == expect), "C01.int: I64+I64 wraps");
}
