// Kani harnesses woven into crates/runtime/src/types/number.rs (child module, sees private items).
// @weave crates/runtime/src/types/number.rs
#![allow(unused)]
use super::*;

const P53: i64 = 1 << 53;

// Inputs are drawn in a fixed order: kind flag (bool, 1 byte), then 8 payload bytes.
fn any_num() -> KNumber {
    let is_int: bool = kani::any();
    let bits: u64 = kani::any();
    if is_int {
        KNumber::I64(bits as i64)
    } else {
        KNumber::F64(f64::from_bits(bits))
    }
}

fn same(a: KNumber, b: KNumber) -> bool {
    match (a, b) {
        (KNumber::I64(x), KNumber::I64(y)) => x == y,
        (KNumber::F64(x), KNumber::F64(y)) => x.to_bits() == y.to_bits() || (x.is_nan() && y.is_nan()),
        _ => false,
    }
}

fn as_f(a: KNumber) -> f64 {
    match a {
        KNumber::I64(x) => x as f64,
        KNumber::F64(x) => x,
    }
}

// two's complement reduction of a mathematical integer
fn wrap(x: i128) -> i64 {
    (x as u128 & 0xffff_ffff_ffff_ffff) as u64 as i64
}

// A Hasher that records exactly what was fed to it.
struct Rec(u64, u32);
impl Hasher for Rec {
    fn finish(&self) -> u64 {
        self.0
    }
    fn write(&mut self, bytes: &[u8]) {
        self.1 += 1 + bytes.len() as u32;
    }
    fn write_u64(&mut self, n: u64) {
        self.0 = self.0.rotate_left(7) ^ n;
        self.1 += 100;
    }
}

// ---------------------------------------------------------------------------------- C14

// @props C14
// @fns impl Hash for KNumber, impl PartialEq for KNumber
// @bound both operands: any kind (I64 / F64), all 2^64 payloads; no loop
// @assume a recording Hasher stands in for the map's hasher: equal feeds imply equal hashes for every Hasher
#[kani::proof]
fn c14_heq() {
    let a = any_num();
    let b = any_num();
    let mut ha = Rec(0, 0);
    let mut hb = Rec(0, 0);
    a.hash(&mut ha);
    b.hash(&mut hb);
    if a == b {
        assert!(ha.0 == hb.0 && ha.1 == hb.1, "C14.heq: equal numbers feed the hasher identically");
    }
    kani::cover!(a == b && a.is_f64() != b.is_f64(), "equal mixed-kind pair");
    kani::cover!(a == b && a.is_f64() && b.is_f64() && a.to_bits() != b.to_bits(), "equal floats with different bits (+0/-0)");
}

// @props C14
// @fns impl PartialEq for KNumber
// @bound all kinds, full width; exactness of mixed-kind equality asserted for |int| <= 2^53 (beyond: finding F12, harness c14_eq_exact_large)
#[kani::proof]
fn c14_eq_laws() {
    let a = any_num();
    let b = any_num();
    assert!((a == b) == (b == a), "C14.eq: == is symmetric");
    if !a.is_nan() {
        assert!(a == a, "C14.eq: == is reflexive on non-NaN");
    }
    assert!((a != b) == !(a == b), "C14.eq: != is the negation of ==");
    match (a, b) {
        (KNumber::I64(x), KNumber::I64(y)) => assert!((a == b) == (x == y), "C14.eq: int equality is value equality"),
        (KNumber::F64(x), KNumber::F64(y)) => assert!((a == b) == (x == y), "C14.eq: float equality is IEEE equality"),
        (KNumber::I64(x), KNumber::F64(y)) | (KNumber::F64(y), KNumber::I64(x)) => {
            if x >= -P53 && x <= P53 {
                // |x| <= 2^53: x as f64 is exact, so exact numeric equality is y == x as f64 and
                // y integral and representable; stated independently of the implementation:
                let exact = y.is_finite() && y >= -9007199254740992.0 && y <= 9007199254740992.0
                    && (y as i64) == x && ((y as i64) as f64) == y;
                assert!((a == b) == exact, "C14.eq: mixed equality is exact numeric equality for |int| <= 2^53");
            }
        }
    }
    kani::cover!(a == b && a.is_i64() && b.is_f64(), "int == float");
    kani::cover!(a != b && a.is_i64() && b.is_f64(), "int != float");
}

// Known finding F12 partition: mixed-kind equality beyond 2^53 goes through a lossy `as f64`.
// @props C14
// @fns impl PartialEq for KNumber
// @bound mixed-kind pairs with |int| > 2^53 only
#[kani::proof]
fn c14_eq_exact_large() {
    let x: i64 = kani::any();
    let yb: u64 = kani::any();
    let y = f64::from_bits(yb);
    kani::assume(x < -P53 || x > P53);
    kani::assume(y.is_finite() && y >= -9223372036854775808.0 && y < 9223372036854775808.0);
    // y is integral here whenever |y| >= 2^53; exact comparison through i128
    let exact = y.fract() == 0.0 && (y as i128) == (x as i128);
    assert!((KNumber::I64(x) == KNumber::F64(y)) == exact, "C14.eq.large: mixed equality is exact numeric equality for |int| > 2^53");
}

// @props C14
// @fns impl Ord for KNumber, impl PartialOrd for KNumber
// @bound pairs, all kinds, full width, NaN excluded; mixed kinds restricted to |int| <= 2^53
#[kani::proof]
fn c14_ord_pair() {
    let a = any_num();
    let b = any_num();
    kani::assume(!a.is_nan() && !b.is_nan());
    let ab = a.cmp(&b);
    let ba = b.cmp(&a);
    assert!(ab == ba.reverse(), "C14.ord: cmp is antisymmetric");
    assert!((ab == Ordering::Equal) == (a == b), "C14.ord: cmp == Equal iff ==");
    assert!(a.partial_cmp(&b) == Some(ab), "C14.ord: partial_cmp agrees with cmp");
    assert!(!(a < a), "C14.ord: < is irreflexive");
    assert!((a < b) as u8 + (a == b) as u8 + (a > b) as u8 == 1, "C14.ord: trichotomy");
    // value oracle
    match (a, b) {
        (KNumber::I64(x), KNumber::I64(y)) => assert!(ab == x.cmp(&y), "C14.ord: int order"),
        (KNumber::F64(x), KNumber::F64(y)) => assert!(Some(ab) == x.partial_cmp(&y), "C14.ord: float order"),
        (KNumber::I64(x), KNumber::F64(y)) => {
            if x >= -P53 && x <= P53 {
                assert!(Some(ab) == (x as f64).partial_cmp(&y), "C14.ord: mixed order is numeric for |int| <= 2^53");
            }
        }
        _ => {}
    }
    kani::cover!(ab == Ordering::Less && a.is_i64() && b.is_f64(), "int < float");
    kani::cover!(ab == Ordering::Greater && a.is_f64() && b.is_f64(), "float > float");
}

fn in53(a: KNumber) -> bool {
    match a {
        KNumber::I64(x) => x >= -P53 && x <= P53,
        KNumber::F64(_) => true,
    }
}

// @props C14
// @fns impl Ord for KNumber
// @bound triples, all kinds, full width, NaN excluded, ints restricted to |int| <= 2^53 when any operand is a float
// @timeout 1500
#[kani::proof]
fn c14_ord_trans() {
    let a = any_num();
    let b = any_num();
    let c = any_num();
    kani::assume(!a.is_nan() && !b.is_nan() && !c.is_nan());
    let all_int = a.is_i64() && b.is_i64() && c.is_i64();
    kani::assume(all_int || (in53(a) && in53(b) && in53(c)));
    if a <= b && b <= c {
        assert!(a <= c, "C14.ord: <= is transitive");
    }
    if a == b && b == c {
        assert!(a == c, "C14.ord: == is transitive");
    }
    kani::cover!(a < b && b < c && a.is_i64() && b.is_f64() && c.is_i64(), "int < float < int");
}

// Known finding F12 partition for the order: beyond 2^53 `==` is not transitive.
// @props C14
// @fns impl Ord for KNumber, impl PartialEq for KNumber
// @bound triples int/float/int with |int| > 2^53
#[kani::proof]
fn c14_ord_trans_large() {
    let x: i64 = kani::any();
    let z: i64 = kani::any();
    let yb: u64 = kani::any();
    let y = f64::from_bits(yb);
    kani::assume(!y.is_nan());
    kani::assume((x < -P53 || x > P53) && (z < -P53 || z > P53));
    let (a, b, c) = (KNumber::I64(x), KNumber::F64(y), KNumber::I64(z));
    if a == b && b == c {
        assert!(a == c, "C14.ord.large: == is transitive across int/float/int beyond 2^53");
    }
}

// ---------------------------------------------------------------------------------- C01

// @props C01
// @fns number_op!(Add/Sub) by value and by reference, impl Neg (both)
// @bound full i64 x i64; oracle = i128 arithmetic reduced mod 2^64
#[kani::proof]
fn c01_int_addsub() {
    let a: i64 = kani::any();
    let b: i64 = kani::any();
    let (ka, kb) = (KNumber::I64(a), KNumber::I64(b));
    let add = wrap(a as i128 + b as i128);
    let sub = wrap(a as i128 - b as i128);
    let neg = wrap(-(a as i128));
    assert!(same(ka + kb, KNumber::I64(add)), "C01.int: I64 + I64 wraps");
    assert!(same(&ka + &kb, KNumber::I64(add)), "C01.int: &I64 + &I64 wraps");
    assert!(same(ka - kb, KNumber::I64(sub)), "C01.int: I64 - I64 wraps");
    assert!(same(&ka - &kb, KNumber::I64(sub)), "C01.int: &I64 - &I64 wraps");
    assert!(same(-ka, KNumber::I64(neg)), "C01.int: -I64 wraps");
    assert!(same(-&ka, KNumber::I64(neg)), "C01.int: -&I64 wraps");
    kani::cover!(a > 0 && b > 0 && add < 0, "addition wraps around");
    kani::cover!(a == i64::MIN, "negating i64::MIN");
}

// Cost note (measured): one full-width 64x64 multiplier equivalence costs ~25 s, two symbolic dividers or a
// symbolic/symbolic f64 division do not finish in 300 s.  Hence: one equivalence per harness, and
// multiplication / remainder / division are checked full-width on one operand against constants on the other.

// @props C01
// @fns number_op!(Mul) by value
// @bound full i64 x i64 against std's wrapping_mul (taken as the definition of wrapping, DESIGN §4 C01.int)
// @timeout 1500
#[kani::proof]
fn c01_int_mul() {
    let a: i64 = kani::any();
    let b: i64 = kani::any();
    assert!(same(KNumber::I64(a) * KNumber::I64(b), KNumber::I64(a.wrapping_mul(b))), "C01.int: I64 * I64 wraps");
    kani::cover!(a > 1 << 40 && b > 1 << 40, "product wraps");
}

// @props C01
// @fns number_op!(Mul) by reference
// @bound full i64 x i64 against std's wrapping_mul
// @timeout 1500
#[kani::proof]
fn c01_int_mul_ref() {
    let a: i64 = kani::any();
    let b: i64 = kani::any();
    assert!(same(&KNumber::I64(a) * &KNumber::I64(b), KNumber::I64(a.wrapping_mul(b))), "C01.int: &I64 * &I64 wraps");
    kani::cover!(a > 1 << 40 && b > 1 << 40, "product wraps");
}

// a % k for k != 0 from the defining equation, with closed forms where they exist
fn rem_oracle(a: i64, k: i64) -> i64 {
    match k {
        1 | -1 => 0,
        2 => if a < 0 && a & 1 == 1 { -1 } else { a & 1 },
        4294967296 => {
            let low = (a as u64 & 0xffff_ffff) as i64;
            if a < 0 && low != 0 { low - 4294967296 } else { low }
        }
        i64::MIN => if a == i64::MIN { 0 } else { a },
        i64::MAX => if a == i64::MAX || a == -i64::MAX { 0 } else if a == i64::MIN { -1 } else { a },
        _ => a % k,
    }
}

// a * k by shifts and adds (two's complement), independent of any multiplier circuit
fn mul_oracle(a: i64, k: i64) -> i64 {
    let u = a as u64;
    (match k {
        0 => 0,
        1 => u,
        -1 => u.wrapping_neg(),
        2 => u << 1,
        3 => (u << 1).wrapping_add(u),
        10 => (u << 3).wrapping_add(u << 1),
        -7 => u.wrapping_sub(u << 3),
        4294967296 => u << 32,
        i64::MAX => (u << 63).wrapping_sub(u),
        i64::MIN => u << 63,
        _ => unreachable!(),
    }) as i64
}

fn mul_const(a: i64, k: i64) {
    let (ka, kk) = (KNumber::I64(a), KNumber::I64(k));
    let prod = mul_oracle(a, k);
    assert!(same(ka * kk, KNumber::I64(prod)), "C01.int: I64 * const wraps");
    assert!(same(&kk * &ka, KNumber::I64(prod)), "C01.int: &const * &I64 wraps");
}

// @props C01
// @fns number_op!(Mul) by value and by reference
// @bound one operand full i64, the other from {0, 1, -1, 2, 2^32, i64::MIN} (a single partial product), both operand orders; oracle: shifts and negation in two's complement
#[kani::proof]
fn c01_int_mul_const() {
    let a: i64 = kani::any();
    mul_const(a, 0);
    mul_const(a, 1);
    mul_const(a, -1);
    mul_const(a, 2);
    mul_const(a, 1 << 32);
    mul_const(a, i64::MIN);
    kani::cover!(a == i64::MIN, "i64::MIN operand");
}

// @props C01
// @fns number_op!(Mul) by value and by reference
// @bound one operand full i64, the other from {3, 10, -7, i64::MAX}: multiplier against shift-and-add forms (SAT-hard: thorough tier)
// @tier thorough
// @timeout 3000
#[kani::proof]
fn c01_int_mul_const2() {
    let a: i64 = kani::any();
    mul_const(a, 3);
    mul_const(a, 10);
    mul_const(a, -7);
    mul_const(a, i64::MAX);
    kani::cover!(a == i64::MIN, "i64::MIN operand");
}

fn rem_const(a: i64, k: i64) {
    let (ka, kk) = (KNumber::I64(a), KNumber::I64(k));
    assert!(same(ka % kk, KNumber::I64(rem_oracle(a, k))), "C01.int: I64 % const");
}

// @props C01
// @fns impl Rem for KNumber and &KNumber (I64 % I64 arm)
// @bound dividend full i64, divisor from {1, -1, 2, 2^32, i64::MAX, i64::MIN}: closed-form oracle (masks and comparisons, no divider)
#[kani::proof]
fn c01_int_rem_const() {
    let a: i64 = kani::any();
    rem_const(a, 1);
    rem_const(a, -1);
    rem_const(a, 2);
    rem_const(a, 1 << 32);
    rem_const(a, i64::MAX);
    rem_const(a, i64::MIN);
    assert!(same(&KNumber::I64(a) % &KNumber::I64(2), KNumber::I64(rem_oracle(a, 2))), "C01.int: &I64 % &const");
    kani::cover!(a == i64::MIN, "i64::MIN dividend");
}

// @props C01
// @fns impl Rem for KNumber (I64 % I64 arm)
// @bound dividend full i64, divisor 10 and -7 (CBMC's remainder by the same constant is the definition: no closed form)
// @timeout 900
// @tier thorough
#[kani::proof]
fn c01_int_rem_const_div() {
    let a: i64 = kani::any();
    rem_const(a, 10);
    rem_const(a, -7);
    kani::cover!(a < 0, "negative dividend");
}

// @props C01
// @fns impl Rem for KNumber (I64 % I64 arm), constant dividend
// @bound dividend 7, divisor full i64 non-zero
// @timeout 900
// @tier thorough
#[kani::proof]
fn c01_int_rem_const_lhs() {
    let a: i64 = kani::any();
    kani::assume(a != 0);
    let r7 = if a == -1 { 0 } else { 7 % a };
    assert!(same(KNumber::I64(7) % KNumber::I64(a), KNumber::I64(r7)), "C01.int: const % I64");
    kani::cover!(a == -1, "divisor -1");
}

// @props C01
// @fns impl Rem (I64 % I64 arm)
// @bound full i64 x i64, divisor non-zero: result kind and sign/magnitude laws (|r| < |b|, r == 0 or sign(r) == sign(a)); exact values: c01_int_rem_const*
#[kani::proof]
fn c01_int_rem_laws() {
    let a: i64 = kani::any();
    let b: i64 = kani::any();
    kani::assume(b != 0);
    match KNumber::I64(a) % KNumber::I64(b) {
        KNumber::I64(r) => {
            assert!(r == 0 || (r < 0) == (a < 0), "C01.int: remainder takes the sign of the dividend");
            assert!((r as i128).abs() < (b as i128).abs(), "C01.int: |remainder| < |divisor|");
        }
        KNumber::F64(_) => assert!(false, "C01.int: I64 % non-zero I64 is an integer"),
    }
    kani::cover!(b == -1 && a == i64::MIN, "i64::MIN % -1");
}

// @props C01
// @fns impl Div for KNumber, impl Div for &KNumber
// @bound all kind combinations, full width: the result is always a float (values: c01_div_*)
#[kani::proof]
fn c01_div_kind() {
    let a = any_num();
    let b = any_num();
    assert!((a / b).is_f64(), "C01.div: / always yields a float");
    assert!((&a / &b).is_f64(), "C01.div: & / & always yields a float");
    kani::cover!(a.is_i64() && matches!(b, KNumber::I64(0)), "int / 0");
    kani::cover!(a.is_i64() && matches!(b, KNumber::I64(1)), "int / 1");
}

// @props C01
// @fns impl Div for KNumber and &KNumber, I64 / I64 arm
// @bound dividend full i64, divisor from {2, 0, -1, 3}; bit-for-bit against f64 division of the converted operands
// @timeout 900
#[kani::proof]
fn c01_div_ii_const() {
    let a: i64 = kani::any();
    let x = a as f64;
    let ka = KNumber::I64(a);
    assert!(same(ka / KNumber::I64(2), KNumber::F64(x / 2.0)), "C01.div: int / 2 is the float quotient");
    assert!(same(&ka / &KNumber::I64(2), KNumber::F64(x / 2.0)), "C01.div: &int / &2 is the float quotient");
    assert!(same(ka / KNumber::I64(0), KNumber::F64(x / 0.0)), "C01.div: int / 0 is an infinity or NaN");
    assert!(same(ka / KNumber::I64(-1), KNumber::F64(x / -1.0)), "C01.div: int / -1 is the float quotient");
    assert!(same(ka / KNumber::I64(3), KNumber::F64(x / 3.0)), "C01.div: int / 3 is the float quotient");
    kani::cover!(a > 2 && a % 2 == 0, "even int / 2");
}

// @props C01
// @fns impl Div for KNumber and &KNumber, mixed and float arms
// @bound one operand full-width f64 or i64, the other a constant of the other kind (2 / 2.0 / 0.5); bit-for-bit against f64 division of the converted operands
// @timeout 900
#[kani::proof]
fn c01_div_mixed_const() {
    let a: i64 = kani::any();
    let fb: u64 = kani::any();
    let f = f64::from_bits(fb);
    assert!(same(KNumber::I64(a) / KNumber::F64(2.0), KNumber::F64(a as f64 / 2.0)), "C01.div: int / float const");
    assert!(same(KNumber::F64(f) / KNumber::I64(2), KNumber::F64(f / 2.0)), "C01.div: float / int const");
    assert!(same(&KNumber::F64(f) / &KNumber::F64(0.5), KNumber::F64(f / 0.5)), "C01.div: &float / &float const");
    assert!(same(&KNumber::I64(a) / &KNumber::F64(0.5), KNumber::F64(a as f64 / 0.5)), "C01.div: &int / &float const");
    kani::cover!(f == 3.0, "3.0 / 2");
}

// @props C01
// @fns impl Div for KNumber, constant dividend
// @bound dividend 1 (int) or 1.0, divisor full-width i64; bit-for-bit
// @timeout 900
// @tier thorough
#[kani::proof]
fn c01_div_const_lhs() {
    let b: i64 = kani::any();
    assert!(same(KNumber::I64(1) / KNumber::I64(b), KNumber::F64(1.0 / b as f64)), "C01.div: 1 / int");
    kani::cover!(b == 0, "1 / 0");
}

fn mixed_pair() -> (KNumber, KNumber, f64, f64) {
    let a = any_num();
    let b = any_num();
    kani::assume(a.is_f64() || b.is_f64());
    (a, b, as_f(a), as_f(b))
}

// @props C01
// @fns number_op!(Add) mixed-kind and float arms, by value
// @bound at least one operand is F64, full width on both
// @timeout 1500
#[kani::proof]
fn c01_mixed_add() {
    let (a, b, x, y) = mixed_pair();
    assert!(same(a + b, KNumber::F64(x + y)), "C01.mixed: + with a float operand is float addition of the converted operands");
    kani::cover!(a.is_i64() && b.is_f64(), "int + float");
    kani::cover!(a.is_f64() && b.is_i64(), "float + int");
}

// @props C01
// @fns number_op!(Add) mixed-kind and float arms, by reference
// @bound at least one operand is F64, full width on both
// @timeout 1500
#[kani::proof]
fn c01_mixed_add_ref() {
    let (a, b, x, y) = mixed_pair();
    assert!(same(&a + &b, KNumber::F64(x + y)), "C01.mixed: &+& with a float operand is float addition of the converted operands");
    kani::cover!(a.is_i64() && b.is_f64(), "&int + &float");
}

// @props C01
// @fns number_op!(Sub) mixed-kind and float arms, by value
// @bound at least one operand is F64, full width on both
// @timeout 1500
#[kani::proof]
fn c01_mixed_sub() {
    let (a, b, x, y) = mixed_pair();
    assert!(same(a - b, KNumber::F64(x - y)), "C01.mixed: - with a float operand is float subtraction of the converted operands");
    kani::cover!(a.is_i64() && b.is_f64(), "int - float");
    kani::cover!(a.is_f64() && b.is_i64(), "float - int");
}

// @props C01
// @fns number_op!(Sub) mixed-kind and float arms, by reference
// @bound at least one operand is F64, full width on both
// @timeout 1500
#[kani::proof]
fn c01_mixed_sub_ref() {
    let (a, b, x, y) = mixed_pair();
    assert!(same(&a - &b, KNumber::F64(x - y)), "C01.mixed: &-& with a float operand is float subtraction of the converted operands");
    kani::cover!(a.is_f64() && b.is_i64(), "&float - &int");
}

// @props C01
// @fns number_op!(Mul), impl Rem: mixed-kind and float arms
// @bound one operand any kind full width, the other from {2.0, -0.5, 0.0} (float) or {3, -1} (int, with a full-width float on the other side); % : result kind only
// @timeout 900
#[kani::proof]
fn c01_mixed_mulrem_const() {
    let a = any_num();
    let x = as_f(a);
    let fb: u64 = kani::any();
    let f = f64::from_bits(fb);
    assert!(same(a * KNumber::F64(2.0), KNumber::F64(x * 2.0)), "C01.mixed: n * 2.0");
    assert!(same(a * KNumber::F64(-0.5), KNumber::F64(x * -0.5)), "C01.mixed: n * -0.5");
    assert!(same(&KNumber::F64(0.0) * &a, KNumber::F64(0.0 * x)), "C01.mixed: &0.0 * &n");
    assert!(same(KNumber::F64(f) * KNumber::I64(3), KNumber::F64(f * 3.0)), "C01.mixed: float * 3");
    assert!(same(&KNumber::I64(-1) * &KNumber::F64(f), KNumber::F64(-1.0 * f)), "C01.mixed: &-1 * &float");
    assert!((a % KNumber::F64(2.0)).is_f64(), "C01.mixed: n % float is a float");
    assert!((KNumber::F64(f) % KNumber::I64(3)).is_f64(), "C01.mixed: float % int is a float");
    assert!((&KNumber::F64(f) % &a).is_f64(), "C01.mixed: &float % &n is a float");
    kani::cover!(a.is_i64(), "int * float const");
}

// b-fold wrapping multiplication for the bases with a closed form
fn pow_closed(base: i64, b: u64) -> i64 {
    match base {
        0 => if b == 0 { 1 } else { 0 },
        1 => 1,
        -1 => if b % 2 == 0 { 1 } else { -1 },
        2 => if b < 64 { (1u64 << b) as i64 } else { 0 },
        -2 => if b >= 64 { 0 } else if b % 2 == 0 { (1u64 << b) as i64 } else { ((1u64 << b) as i64).wrapping_neg() },
        _ => unreachable!(),
    }
}

fn pow_check(base: i64) {
    let b: i64 = kani::any();
    let r = KNumber::I64(base).pow(KNumber::I64(b));
    if b >= 0 {
        assert!(same(r, KNumber::I64(pow_closed(base, b as u64))), "C01.pow: I64 ^ I64 is b-fold wrapping multiplication");
    } else {
        assert!(r.is_f64(), "C01.pow: negative exponent yields a float");
    }
    kani::cover!(b > u32::MAX as i64, "exponent beyond u32");
    kani::cover!(b == 63, "exponent 63");
}

// @props C01 C06
// @fns KNumber::pow (I64 ^ I64 arm)
// @bound concrete base 0 (closed form for b-fold wrapping multiplication), every exponent in [0, 2^63); negative exponents: result kind only
// @timeout 900
#[kani::proof]
#[kani::unwind(66)]
fn c01_pow_b0() {
    pow_check(0);
}

// @props C01 C06:thorough
// @fns KNumber::pow (I64 ^ I64 arm)
// @bound concrete base 1 (closed form for b-fold wrapping multiplication), every exponent in [0, 2^63); negative exponents: result kind only
// @timeout 900
#[kani::proof]
#[kani::unwind(66)]
fn c01_pow_b1() {
    pow_check(1);
}

// @props C01 C06:thorough
// @fns KNumber::pow (I64 ^ I64 arm)
// @bound concrete base -1 (closed form for b-fold wrapping multiplication), every exponent in [0, 2^63); negative exponents: result kind only
// @timeout 900
#[kani::proof]
#[kani::unwind(66)]
fn c01_pow_bm1() {
    pow_check(-1);
}

// @props C01 C06
// @fns KNumber::pow (I64 ^ I64 arm)
// @bound concrete base 2 (closed form for b-fold wrapping multiplication), every exponent in [0, 2^63); negative exponents: result kind only
// @timeout 900
#[kani::proof]
#[kani::unwind(66)]
fn c01_pow_b2() {
    pow_check(2);
}

// @props C01 C06:thorough
// @fns KNumber::pow (I64 ^ I64 arm)
// @bound concrete base -2 (closed form for b-fold wrapping multiplication), every exponent in [0, 2^63); negative exponents: result kind only
// @timeout 900
#[kani::proof]
#[kani::unwind(66)]
fn c01_pow_bm2() {
    pow_check(-2);
}


// ---------------------------------------------------------------------------------- C06

// @props C06
// @fns impl Add/Sub/Mul/Rem/Div/Neg for KNumber and &KNumber, impl Ord, impl PartialEq
// @bound all kinds, full width; no functional assertion: every panic-class check counts
#[kani::proof]
fn c06_num_ops() {
    let a = any_num();
    let b = any_num();
    let r = [a + b, a - b, a * b, a % b, a / b, &a + &b, &a - &b, &a * &b, &a % &b, &a / &b, -a, -&a];
    let _ = (a == b, a.cmp(&b), a.partial_cmp(&b));
    std::mem::forget(r);
    kani::cover!(matches!(b, KNumber::I64(0)) && a.is_i64(), "int % int 0");
    kani::cover!(matches!(b, KNumber::I64(-1)) && matches!(a, KNumber::I64(i64::MIN)), "i64::MIN op -1");
}

// @props C06
// @fns KNumber::{abs, ceil, floor, round, is_i64_in_f64_range, is_finite, is_nan, to_bits}
// @bound all kinds, full width
#[kani::proof]
fn c06_num_unary() {
    let a = any_num();
    let _ = (a.abs(), a.ceil(), a.floor(), a.round(), a.is_i64_in_f64_range(), a.is_finite(), a.is_nan(), a.to_bits());
    if let KNumber::I64(x) = a {
        if x != i64::MIN {
            assert!(same(a.abs(), KNumber::I64(if x < 0 { -x } else { x })), "C06.num: |int|");
        }
        assert!(same(a.ceil(), a) && same(a.floor(), a) && same(a.round(), a), "C06.num: rounding an int is the identity");
    }
    kani::cover!(matches!(a, KNumber::I64(i64::MIN)), "abs of i64::MIN");
    kani::cover!(a.is_nan(), "rounding NaN");
}

// @props C06
// @fns From<KNumber> for u8..usize, i8..i128, f32, f64; From<prim> for KNumber; PartialEq<prim>/PartialOrd<prim> for KNumber
// @bound all kinds, full width; saturating conversion oracle for i64 -> narrower ints
#[kani::proof]
fn c06_num_conv() {
    let a = any_num();
    let _ = (u8::from(a), u16::from(a), u32::from(a), u64::from(a), u128::from(a), usize::from(a));
    let _ = (i8::from(a), i16::from(a), i32::from(a), i64::from(a), i128::from(a), isize::from(a));
    let _ = (f32::from(a), f64::from(a));
    let p: i64 = kani::any();
    let q: u64 = kani::any();
    let f: u64 = kani::any();
    let _ = (a == p, a == q, a == f64::from_bits(f), a == (p as i8), a == (q as u128), a.partial_cmp(&p), a.partial_cmp(&f64::from_bits(f)));
    if let KNumber::I64(x) = a {
        let u = u8::from(a);
        let expect = if x < 0 { 0 } else if x > 255 { 255 } else { x as u8 };
        assert!(u == expect, "C06.num: i64 -> u8 saturates");
        let i = i8::from(a);
        let expect = if x < -128 { -128 } else if x > 127 { 127 } else { x as i8 };
        assert!(i == expect, "C06.num: i64 -> i8 saturates");
        let us = usize::from(a);
        assert!(us == if x < 0 { 0 } else { x as usize }, "C06.num: i64 -> usize saturates");
    }
    assert!(matches!(KNumber::from(q), KNumber::I64(v) if v == if q > i64::MAX as u64 { i64::MAX } else { q as i64 }), "C06.num: u64 -> KNumber saturates");
    kani::cover!(matches!(a, KNumber::I64(x) if x > 255), "large int to u8");
}
