// Kani harnesses woven into crates/runtime/src/vm.rs: the execution-limit scheduler.
// Time is a solver variable: the `instant` crate is replaced by a model clock (stubs/instant).
// @weave crates/runtime/src/vm.rs
// @config patches=instant
#![allow(unused)]
use super::*;

const MAX_NS: u64 = 1 << 40; // durations up to ~18 minutes

fn any_duration() -> (Duration, u64) {
    let ns: u64 = kani::any();
    kani::assume(ns < MAX_NS);
    (Duration::from_nanos(ns), ns)
}

// An arbitrary ExecutionTimeout consistent with a clock whose last reading was `last_check`.
fn any_timeout() -> ExecutionTimeout {
    let last: u64 = kani::any();
    let deadline: u64 = kani::any();
    kani::assume(last < (1 << 50) && deadline < (1 << 50));
    instant::verif_set_last(last);
    let (limit, limit_ns) = any_duration();
    let interval: usize = kani::any();
    let since: usize = kani::any();
    kani::assume(interval < (1 << 40) && since <= interval);
    ExecutionTimeout {
        last_check: Instant(last),
        deadline: Instant(deadline),
        interval_seconds: limit_ns as f64 / 10e9,
        interval_instructions: interval,
        instructions_since_last_check: since,
        execution_limit: limit,
    }
}

// @props C08
// @fns ExecutionTimeout::new
// @bound execution limit < 2^40 ns, clock reading arbitrary
#[kani::proof]
fn c08_new() {
    let (limit, limit_ns) = any_duration();
    let reads0 = instant::verif_reads();
    let t = ExecutionTimeout::new(limit);
    let now = instant::verif_last();
    assert!(instant::verif_reads() == reads0 + 1, "C08.new: the clock is read exactly once");
    assert!(t.last_check.0 == now && t.deadline.0 == now + limit_ns, "C08.new: the deadline is creation time plus the limit");
    assert!(t.instructions_since_last_check == 0 && t.execution_limit == limit, "C08.new: counters start at zero");
    kani::cover!(limit_ns > 1_000_000_000, "limit above one second");
}

// @props C08
// @fns ExecutionTimeout::check_for_timeout
// @bound one call from an arbitrary state (deadline, last check < 2^50 ns, interval < 2^40 instructions, counter <= interval), clock reading arbitrary but monotonic
// @assume the clock is monotonic (model clock); CBMC's NaN-on-division check is filtered (elapsed may be zero: see DESIGN §4 C08)
#[kani::proof]
fn c08_check_step() {
    let mut t = any_timeout();
    let deadline = t.deadline.0;
    let since = t.instructions_since_last_check;
    let interval = t.interval_instructions;
    let reads0 = instant::verif_reads();
    let fired = t.check_for_timeout();
    let polled = instant::verif_reads() != reads0;
    let now = instant::verif_last();
    assert!(t.deadline.0 == deadline, "C08.frame: the deadline is never moved");
    if fired {
        assert!(polled && now >= deadline, "C08.early: a timeout is only reported when the clock has reached the deadline");
    }
    if since >= interval {
        assert!(polled, "C08.poll: the clock is read once the instruction counter reaches the interval");
        if now >= deadline {
            assert!(fired, "C08.fire: a poll at or after the deadline reports the timeout");
        } else {
            assert!(!fired && t.instructions_since_last_check == 0 && t.last_check.0 == now, "C08.poll: a poll before the deadline restarts the counter from the current time");
        }
    } else {
        assert!(!polled && !fired && t.instructions_since_last_check == since + 1 && t.interval_instructions == interval, "C08.poll: between polls the counter advances by exactly one");
    }
    kani::cover!(fired, "timeout reported");
    kani::cover!(polled && !fired, "poll before the deadline");
    kani::cover!(!polled, "no poll");
}

fn poll_after(n: usize, c: usize) {
    let mut t = any_timeout();
    t.interval_instructions = n;
    t.instructions_since_last_check = c;
    let reads0 = instant::verif_reads();
    let mut k = 0;
    while k < n - c {
        let fired = t.check_for_timeout();
        assert!(!fired && instant::verif_reads() == reads0, "C08.poll: no clock reading and no timeout before the interval has elapsed");
        k += 1;
    }
    let _ = t.check_for_timeout();
    assert!(instant::verif_reads() == reads0 + 1, "C08.poll: the clock is read after exactly interval - counter + 1 instructions");
}

// @props C08
// @fns ExecutionTimeout::check_for_timeout (repeated calls)
// @bound concrete (interval, counter) pairs (0,0), (2,0), (3,1), (4,4); everything else arbitrary as in c08_check_step. The general statement follows by induction from c08_check_step's single-step obligations; this harness is the sanity check of that argument on whole call sequences (a symbolic interval made CBMC encode a symbolic f64 division per call: no result in 600 s)
#[kani::proof]
#[kani::unwind(6)]
fn c08_poll_count() {
    poll_after(0, 0);
    poll_after(2, 0);
    poll_after(3, 1);
    poll_after(4, 4);
    kani::cover!(true, "the end of the harness is reached past every obligation");
}
