// Kani harnesses woven into crates/runtime/src/vm.rs: the execution-limit scheduler.
// Time is a solver variable: the `instant` crate is replaced by a model clock (stubs/instant).
// @weave crates/runtime/src/vm.rs
// @config patches=instant
#![allow(unused)]
use super::*;

const MAX_NS: u64 = 1 << 40; // durations up to ~18 minutes

fn any_duration() -> (Duration, u64) {
    let ns: u64 = kani::any();
    kani::assume(ns < MAX_NS);
    (Duration::from_nanos(ns), ns)
}

// An arbitrary ExecutionTimeout consistent with a clock whose last reading was `last_check`.
fn any_timeout() -> ExecutionTimeout {
    let last: u64 = kani::any();
    let deadline: u64 = kani::any();
    kani::assume(last < (1 << 50) && deadline < (1 << 50));
    instant::verif_set_last(last);
    let (limit, limit_ns) = any_duration();
    let interval: usize = kani::any();
    let since: usize = kani::any();
    kani::assume(interval < (1 << 40) && since <= interval);
    ExecutionTimeout {
        last_check: Instant(last),
        deadline: Instant(deadline),
        interval_seconds: limit_ns as f64 / 10e9,
        interval_instructions: interval,
        instructions_since_last_check: since,
        execution_limit: limit,
    }
}

// @props C08
// @fns ExecutionTimeout::new
// @bound execution limit < 2^40 ns, clock reading arbitrary
#[kani::proof]
fn c08_new() {
    let (limit, limit_ns) = any_duration();
    let reads0 = instant::verif_reads();
    let t = ExecutionTimeout::new(limit);
    let now = instant::verif_last();
    assert!(instant::verif_reads() == reads0 + 1, "C08.new: the clock is read exactly once");
    assert!(t.last_check.0 == now && t.deadline.0 == now + limit_ns, "C08.new: the deadline is creation time plus the limit");
    assert!(t.instructions_since_last_check == 0 && t.execution_limit == limit, "C08.new: counters start at zero");
    kani::cover!(limit_ns > 1_000_000_000, "limit above one second");
}

// @props C08
// @fns ExecutionTimeout::check_for_timeout
// @bound one call from an arbitrary state (deadline, last check < 2^50 ns, interval < 2^40 instructions, counter <= interval), clock reading arbitrary but monotonic
// @assume the clock is monotonic (model clock); CBMC's NaN-on-division check is filtered (elapsed may be zero: see DESIGN §4 C08)
#[kani::proof]
fn c08_check_step() {
    let mut t = any_timeout();
    let deadline = t.deadline.0;
    let since = t.instructions_since_last_check;
    let interval = t.interval_instructions;
    let reads0 = instant::verif_reads();
    let fired = t.check_for_timeout();
    let polled = instant::verif_reads() != reads0;
    let now = instant::verif_last();
    assert!(t.deadline.0 == deadline, "C08.frame: the deadline is never moved");
    if fired {
        assert!(polled && now >= deadline, "C08.early: a timeout is only reported when the clock has reached the deadline");
    }
    if since >= interval {
        assert!(polled, "C08.poll: the clock is read once the instruction counter reaches the interval");
        if now >= deadline {
            assert!(fired, "C08.fire: a poll at or after the deadline reports the timeout");
        } else {
            assert!(!fired && t.instructions_since_last_check == 0 && t.last_check.0 == now, "C08.poll: a poll before the deadline restarts the counter from the current time");
        }
    } else {
        assert!(!polled && !fired && t.instructions_since_last_check == since + 1 && t.interval_instructions == interval, "C08.poll: between polls the counter advances by exactly one");
    }
    kani::cover!(fired, "timeout reported");
    kani::cover!(polled && !fired, "poll before the deadline");
    kani::cover!(!polled, "no poll");
}

// @props C08
// @fns ExecutionTimeout::check_for_timeout (repeated)
// @bound interval n <= 4, counter c <= n, then n - c + 1 calls; the clock is read for the first time exactly at the last of them
// @assume the deadline is not reached at the poll (otherwise c08_check_step applies)
#[kani::proof]
#[kani::unwind(7)]
fn c08_poll_count() {
    let mut t = any_timeout();
    let n = t.interval_instructions;
    let c = t.instructions_since_last_check;
    kani::assume(n <= 4);
    let reads0 = instant::verif_reads();
    let mut k = 0;
    let mut calls = 0;
    while k < 6 {
        if instant::verif_reads() == reads0 {
            let _ = t.check_for_timeout();
            calls += 1;
        }
        k += 1;
    }
    assert!(instant::verif_reads() == reads0 + 1, "C08.poll: the clock is read after finitely many instructions");
    assert!(calls == n - c + 1, "C08.poll: the clock is read after exactly interval - counter + 1 instructions");
    kani::cover!(n == 4 && c == 0, "a full interval of four");
}
