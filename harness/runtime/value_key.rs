// Kani harnesses woven into crates/runtime/src/types/value_key.rs: map keys of the scalar kinds.
// Keys are built from values of a statically known variant (Number / Bool / Null) and forgotten, never dropped
// (DESIGN §2.6 item 6).
// @weave crates/runtime/src/types/value_key.rs
#![allow(unused)]
use super::*;

fn any_num() -> KNumber {
    let is_int: bool = kani::any();
    let bits: u64 = kani::any();
    if is_int { KNumber::I64(bits as i64) } else { KNumber::F64(f64::from_bits(bits)) }
}

struct Rec(u64, u32);
impl Hasher for Rec {
    fn finish(&self) -> u64 { self.0 }
    fn write(&mut self, bytes: &[u8]) {
        let mut i = 0;
        while i < bytes.len() {
            self.0 = self.0.rotate_left(5) ^ bytes[i] as u64;
            i += 1;
        }
        self.1 += 1 + bytes.len() as u32;
    }
    fn write_u64(&mut self, n: u64) {
        self.0 = self.0.rotate_left(7) ^ n;
        self.1 += 100;
    }
}

fn feed(k: &ValueKey) -> (u64, u32) {
    let mut h = Rec(0, 0);
    k.hash(&mut h);
    (h.0, h.1)
}

// kinds are concrete per call (0 number, 1 bool, 2 null) so that only the matching arms of ValueKey's impls are explored
fn key_case(ka: u8, kb: u8) {
    let (na, nb) = (any_num(), any_num());
    let (ba, bb): (bool, bool) = (kani::any(), kani::any());
    let a = match ka {
        0 => ValueKey(KValue::Number(na)),
        1 => ValueKey(KValue::Bool(ba)),
        _ => ValueKey(KValue::Null),
    };
    let b = match kb {
        0 => ValueKey(KValue::Number(nb)),
        1 => ValueKey(KValue::Bool(bb)),
        _ => ValueKey(KValue::Null),
    };
    let want_eq = match (ka, kb) {
        (0, 0) => na == nb,
        (1, 1) => ba == bb,
        (2, 2) => true,
        _ => false,
    };
    assert!((a == b) == want_eq, "C14.key: two scalar keys are equal exactly when they are equal as values");
    if a == b {
        assert!(feed(&a) == feed(&b), "C14.key: equal keys feed the hasher identically");
    }
    if ka == 0 && kb == 0 && !na.is_nan() && !nb.is_nan() {
        assert!(a.partial_cmp(&b) == Some(na.cmp(&nb)), "C14.key: number keys are ordered like numbers");
    }
    if ka == 2 && kb != 2 {
        assert!(a.partial_cmp(&b) == Some(Ordering::Less), "C14.key: null orders before every other key");
    }
    kani::cover!(ka == 0 && kb == 0 && a == b && na.is_f64() != nb.is_f64(), "equal number keys of different kinds");
    std::mem::forget(a);
    std::mem::forget(b);
}

// @props C14
// @fns impl PartialEq / Hash / PartialOrd for ValueKey (Number, Bool, Null arms)
// @bound pairs of keys, each a number of any kind (full width), a boolean or null (9 kind pairs, concrete per block): equality of keys is equality of values, equal keys feed the hasher identically, number keys are ordered like numbers, null orders first
// @assume a recording Hasher stands for every Hasher
// @kani --no-memory-safety-checks --no-assertion-reach-checks
// @timeout 900
#[kani::proof]
#[kani::unwind(3)]
fn c14_value_key_scalars() {
    key_case(0, 0);
    key_case(0, 1);
    key_case(0, 2);
    key_case(1, 0);
    key_case(1, 1);
    key_case(2, 0);
    key_case(2, 2);
}
