// Kani harnesses woven into crates/runtime/src/core_lib/iterator/peekable.rs
// @weave crates/runtime/src/core_lib/iterator/peekable.rs
#![allow(unused)]
use super::*;
use crate::Ptr;

fn num(o: Option<Output>) -> Option<i64> {
    let r = match &o {
        Some(Output::Value(KValue::Number(KNumber::I64(n)))) => Some(*n),
        Some(_) => Some(-1),
        None => None,
    };
    std::mem::forget(o);
    r
}

// An arbitrary Peekable state over a 2-byte source: each of the two cached slots holds a value or not, the wrapped
// iterator has 0, 1 or 2 elements left.  (peek / peek_back build wrapper objects through the derive macro's
// thread-local type tables, on which kani-compiler 0.68 aborts; the cache slots are therefore set directly, which is
// what peek / peek_back leave behind.)
fn state(data: &[u8; 2], consumed: usize, front: Option<u8>, back: Option<u8>) -> Peekable {
    let mut iter = KIterator::with_bytes(Ptr::from(&data[..])).ok().unwrap();
    if consumed >= 1 {
        std::mem::forget(iter.next());
    }
    if consumed >= 2 {
        std::mem::forget(iter.next());
    }
    let mut p = Peekable::new(iter);
    p.peeked_front = front.map(|b| KValue::Number(KNumber::I64(b as i64)));
    p.peeked_back = back.map(|b| KValue::Number(KNumber::I64(b as i64)));
    p
}

// Straight-line pulls and a small unwinding bound: KValue's drop glue is recursive (Vec<KValue> ...) and CBMC unrolls it
// to the harness's unwinding depth wherever a value may be dropped; with unwind(6) and loops this harness reached 26 GB.
fn check(consumed: usize, has_front: bool, has_back: bool, via_object_protocol: bool, forward: bool) {
    let data: [u8; 2] = kani::any();
    let f: u8 = kani::any();
    let bk: u8 = kani::any();
    let mut p = state(&data, consumed, if has_front { Some(f) } else { None }, if has_back { Some(bk) } else { None });
    // a VM reference that is never used by the two protocol functions (parameter `_vm`)
    let mut slot = std::mem::MaybeUninit::<KotoVm>::uninit();
    let vm: &mut KotoVm = unsafe { &mut *slot.as_mut_ptr() };
    // expected forward sequence: peeked front, remaining source, peeked back
    let mut want = [0i64; 4];
    let mut n = 0;
    if has_front { want[n] = f as i64; n += 1; }
    if consumed < 1 { want[n] = data[0] as i64; n += 1; }
    if consumed < 2 { want[n] = data[1] as i64; n += 1; }
    if has_back { want[n] = bk as i64; n += 1; }
    let mut pull = |p: &mut Peekable, vm: &mut KotoVm| num(match (forward, via_object_protocol) {
        (true, true) => p.iterator_next(vm),
        (true, false) => p.next(),
        (false, true) => p.iterator_next_back(vm),
        (false, false) => p.next_back(),
    });
    let expect = |k: usize| if k < n { Some(want[if forward { k } else { n - 1 - k }]) } else { None };
    assert!(pull(&mut p, vm) == expect(0), "C13.peekable: first pull: peeked elements are produced exactly once, in sequence order, from either end");
    assert!(pull(&mut p, vm) == expect(1), "C13.peekable: second pull");
    assert!(pull(&mut p, vm) == expect(2), "C13.peekable: third pull");
    std::mem::forget(p);
    kani::cover!(true, "the end of the harness is reached past every obligation");
}

// @props C13
// @fns Peekable::iterator_next, Peekable::iterator_next_back (the KotoObject iterator protocol used by for loops, adaptors and consumers)
// @bound cache/source shapes (source exhausted, back cached), (one source element left, back cached), (source exhausted, front cached) x direction as listed; element values symbolic; three pulls each
// @assume the cache slots are set directly instead of through peek / peek_back (those construct wrapper objects via thread-local type tables, not encodable under Kani 0.68)
// @kani --no-memory-safety-checks --no-assertion-reach-checks
// @timeout 1200
// @mem 10
#[kani::proof]
#[kani::unwind(3)]
fn c13_peekable_protocol() {
    check(2, false, true, true, true);
    check(1, false, true, true, true);
    check(2, true, false, true, false);
}

// @props C13
// @fns Peekable::next, Peekable::next_back (used by the `next` / `next_back` script methods) and the protocol functions in the remaining shapes
// @bound shapes (both cached, source exhausted), (front cached, two source elements left) in both directions, through both entry points
// @kani --no-memory-safety-checks --no-assertion-reach-checks
// @timeout 2400
// @mem 16
// @tier thorough
#[kani::proof]
#[kani::unwind(3)]
fn c13_peekable_methods() {
    check(2, false, true, false, true);
    check(2, true, true, false, false);
    check(2, true, true, true, true);
    check(0, true, false, false, true);
}
