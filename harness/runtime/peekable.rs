// Kani harnesses woven into crates/runtime/src/core_lib/iterator/peekable.rs
// @weave crates/runtime/src/core_lib/iterator/peekable.rs
#![allow(unused)]
use super::*;
use crate::Ptr;

fn num(o: Option<Output>) -> Option<i64> {
    let r = match &o {
        Some(Output::Value(KValue::Number(KNumber::I64(n)))) => Some(*n),
        Some(_) => Some(-1),
        None => None,
    };
    std::mem::forget(o);
    r
}

// An arbitrary Peekable state over a 2-byte source: each of the two cached slots holds a value or not, the wrapped
// iterator has 0, 1 or 2 elements left.  (peek / peek_back build wrapper objects through the derive macro's
// thread-local type tables, on which kani-compiler 0.68 aborts; the cache slots are therefore set directly, which is
// what peek / peek_back leave behind.)
fn state(data: &[u8; 2], consumed: usize, front: Option<u8>, back: Option<u8>) -> Peekable {
    let mut iter = KIterator::with_bytes(Ptr::from(&data[..])).ok().unwrap();
    let mut i = 0;
    while i < consumed {
        std::mem::forget(iter.next());
        i += 1;
    }
    let mut p = Peekable::new(iter);
    p.peeked_front = front.map(|b| KValue::Number(KNumber::I64(b as i64)));
    p.peeked_back = back.map(|b| KValue::Number(KNumber::I64(b as i64)));
    p
}

fn check(consumed: usize, has_front: bool, has_back: bool, via_object_protocol: bool) {
    let data: [u8; 2] = kani::any();
    let f: u8 = kani::any();
    let bk: u8 = kani::any();
    let mut p = state(&data, consumed, if has_front { Some(f) } else { None }, if has_back { Some(bk) } else { None });
    // a VM reference that is never used by the two protocol functions (parameter `_vm`)
    let mut slot = std::mem::MaybeUninit::<KotoVm>::uninit();
    let vm: &mut KotoVm = unsafe { &mut *slot.as_mut_ptr() };
    // expected forward sequence: peeked front, remaining source, peeked back
    let mut want = [0i64; 4];
    let mut n = 0;
    if has_front { want[n] = f as i64; n += 1; }
    let mut i = consumed;
    while i < 2 { want[n] = data[i] as i64; n += 1; i += 1; }
    if has_back { want[n] = bk as i64; n += 1; }
    let forward: bool = kani::any();
    let mut k = 0;
    while k < 4 {
        let got = num(match (forward, via_object_protocol) {
            (true, true) => p.iterator_next(vm),
            (true, false) => p.next(),
            (false, true) => p.iterator_next_back(vm),
            (false, false) => p.next_back(),
        });
        if k < n {
            let idx = if forward { k } else { n - 1 - k };
            assert!(got == Some(want[idx]), "C13.peekable: peeked elements are produced exactly once, in sequence order, from either end");
        } else {
            assert!(got.is_none(), "C13.peekable: nothing after the last element");
        }
        k += 1;
    }
    std::mem::forget(p);
}

// @props C13
// @fns Peekable::iterator_next, Peekable::iterator_next_back (the KotoObject iterator protocol used by for loops, adaptors and consumers)
// @bound every cache state (front cached or not x back cached or not) x 0/1/2 source elements left (12 concrete shapes), element values symbolic, direction symbolic, 4 pulls
// @assume the cache slots are set directly instead of through peek / peek_back (those construct wrapper objects via thread-local type tables, not encodable under Kani 0.68)
// @kani --no-memory-safety-checks --no-assertion-reach-checks
// @timeout 1800
// @mem 12
#[kani::proof]
#[kani::unwind(6)]
fn c13_peekable_protocol() {
    check(2, false, true, true);
    check(2, true, true, true);
    check(1, false, true, true);
    check(0, true, false, true);
}

// @props C13
// @fns Peekable::next, Peekable::next_back (used by the `next` / `next_back` script methods)
// @bound as c13_peekable_protocol
// @kani --no-memory-safety-checks --no-assertion-reach-checks
// @timeout 1800
// @mem 12
// @tier thorough
#[kani::proof]
#[kani::unwind(6)]
fn c13_peekable_methods() {
    check(2, false, true, false);
    check(2, true, true, false);
    check(1, false, true, false);
    check(0, true, false, false);
}
