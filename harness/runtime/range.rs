// Kani harnesses woven into crates/runtime/src/types/range.rs
// @weave crates/runtime/src/types/range.rs
#![allow(unused)]
use super::*;

// Inputs in order: has_start(bool) start(i64) has_end(bool) end(i64) inclusive(bool)
fn any_range() -> (KRange, Option<i64>, Option<(i64, bool)>) {
    let has_start: bool = kani::any();
    let start: i64 = kani::any();
    let has_end: bool = kani::any();
    let end: i64 = kani::any();
    let inclusive: bool = kani::any();
    let s = if has_start { Some(start) } else { None };
    let e = if has_end { Some((end, inclusive)) } else { None };
    (KRange::new(s, e), s, e)
}

fn any_bounded() -> (KRange, i64, i64, bool) {
    let start: i64 = kani::any();
    let end: i64 = kani::any();
    let inclusive: bool = kani::any();
    (KRange::new(Some(start), Some((end, inclusive))), start, end, inclusive)
}

// mathematical half-open interval [lo, hi) denoted by a range, in i128 so that nothing overflows
fn interval(s: Option<i64>, e: Option<(i64, bool)>) -> (i128, i128) {
    let lo = match s {
        Some(s) => s as i128,
        None => i64::MIN as i128,
    };
    let hi = match e {
        Some((e, true)) => e as i128 + 1,
        Some((e, false)) => e as i128,
        None => i64::MAX as i128,
    };
    (lo, if hi < lo { lo } else { hi })
}

// @props C01 C06
// @fns KRange::new, KRange::start, KRange::end, KRange::is_bounded, KRange::as_bounded_range, KRange::size
// @bound every representation (unbounded, from, to, i32-bounded, boxed i64-bounded), all i64 bounds; exactness of the exclusive end asserted when it is representable (inclusive end < i64::MAX)
#[kani::proof]
fn c01_range_repr() {
    let (r, s, e) = any_range();
    assert!(r.start() == s, "C01.range: new -> start round-trips");
    assert!(r.end() == e, "C01.range: new -> end round-trips");
    assert!(r.is_bounded() == (s.is_some() && e.is_some()), "C01.range: is_bounded iff both bounds given");
    let (lo, hi) = interval(s, e);
    let b = r.as_bounded_range();
    assert!(b.start <= b.end, "C01.range: as_bounded_range is never descending");
    assert!(b.start as i128 == lo, "C01.range: as_bounded_range start");
    if hi <= i64::MAX as i128 {
        assert!(b.end as i128 == hi, "C01.range: as_bounded_range end is the exclusive end, descending ranges are empty");
    } else {
        assert!(b.end == i64::MAX, "C01.range: an exclusive end beyond i64::MAX saturates");
    }
    match r.size() {
        Some(n) => {
            assert!(r.is_bounded(), "C01.range: size only for bounded ranges");
            if hi <= i64::MAX as i128 {
                assert!(n as u128 == (hi - lo) as u128, "C01.range: size is the number of integers in the range");
            }
        }
        None => assert!(!r.is_bounded(), "C01.range: bounded ranges have a size"),
    }
    kani::cover!(matches!(r.0, Inner::BoundedLarge(_)), "boxed i64 representation");
    kani::cover!(matches!(r.0, Inner::Bounded { .. }) && hi == lo, "descending i32 range");
    kani::cover!(matches!(e, Some((i64::MAX, true))), "inclusive end at i64::MAX");
    kani::cover!(r.is_bounded() && hi - lo > i64::MAX as i128, "size beyond i64::MAX");
}

// @props C01 C06
// @fns KRange::indices, KRange::as_bounded_range
// @bound every representation, all i64 bounds, container length n <= isize::MAX (what Vec/str lengths can be)
#[kani::proof]
fn c01_range_indices() {
    let (r, s, e) = any_range();
    let n: usize = kani::any();
    kani::assume(n <= isize::MAX as usize);
    let (lo, hi) = interval(s, e);
    let idx = r.indices(n);
    // the VM slices lists, tuples and strings with this result without further checks (run_index: `unreachable!()` /
    // slice indexing), so the same fact is also a no-panic obligation
    assert!(idx.start <= idx.end && idx.end <= n, "C01.range C06.range: indices(n) is ordered and never leaves 0..=n");
    let clamp = |x: i128, a: i128, b: i128| if x < a { a } else if x > b { b } else { x };
    let es = clamp(lo, 0, n as i128);
    let ee = clamp(hi, es, n as i128);
    assert!(idx.start as i128 == es, "C01.range: indices start is the range start clamped to 0..=n");
    assert!(idx.end as i128 == ee, "C01.range: indices end is the exclusive end clamped to start..=n");
    kani::cover!(lo < 0 && hi > 0 && hi < n as i128, "negative start, end inside");
    kani::cover!(e.is_none() && s.is_some(), "open end");
    kani::cover!(matches!(e, Some((_, true))) && hi <= n as i128 && lo >= 0 && lo < hi, "inclusive end inside the container");
}

// @props C01 C06
// @fns KRange::contains
// @bound every representation, all i64 bounds, integer probe k over all i64 (float probes: no-panic only)
#[kani::proof]
fn c01_range_contains() {
    let (r, s, e) = any_range();
    let k: i64 = kani::any();
    let (lo, hi) = interval(s, e);
    let member = (k as i128) >= lo && (k as i128) < hi;
    if hi <= i64::MAX as i128 {
        assert!(r.contains(KNumber::I64(k)) == member, "C01.range: contains(k) is interval membership");
    } else {
        let _ = r.contains(KNumber::I64(k));
    }
    let fb: u64 = kani::any();
    let _ = r.contains(KNumber::F64(f64::from_bits(fb)));
    kani::cover!(member && matches!(e, Some((x, true)) if x == k), "k is the inclusive end");
    kani::cover!(!member && matches!(e, Some((x, false)) if x == k), "k is the exclusive end");
}

// @props C01 C06:thorough
// @fns KRange::intersection
// @bound both ranges: every representation, all i64 bounds with exclusive ends representable
#[kani::proof]
fn c01_range_intersection() {
    let (a, sa, ea) = any_range();
    let (b, sb, eb) = any_range();
    let (alo, ahi) = interval(sa, ea);
    let (blo, bhi) = interval(sb, eb);
    kani::assume(ahi <= i64::MAX as i128 && bhi <= i64::MAX as i128);
    let lo = if alo > blo { alo } else { blo };
    let hi = if ahi < bhi { ahi } else { bhi };
    match a.intersection(&b) {
        Some(r) => {
            let x = r.as_bounded_range();
            let xhi = if (x.end as i128) < (x.start as i128) { x.start as i128 } else { x.end as i128 };
            if lo < hi {
                assert!(x.start as i128 == lo && xhi == hi, "C01.range: a returned intersection is the common sub-interval");
            } else {
                assert!(x.start as i128 == xhi, "C01.range: a returned intersection of disjoint ranges is empty");
            }
        }
        None => {
            assert!(!(lo < hi), "C01.range: intersection is null only when the ranges share no integer");
        }
    }
    kani::cover!(lo < hi && alo < blo && bhi < ahi, "b strictly inside a");
    kani::cover!(lo < hi && blo < alo && ahi < bhi, "a strictly inside b");
}

// ---------------------------------------------------------------------------------- C13

// abstraction: the integer interval still to be produced
fn alpha(r: &KRange) -> (i128, i128) {
    interval(r.start(), r.end())
}

// @props C13 C06
// @fns KRange::pop_front, KRange::pop_back (called by RangeIterator::next/next_back and by the VM's temporary-range loops)
// @bound one inductive step from an arbitrary bounded range: any i64 start/end, inclusive flag, i32 and boxed-i64 representation; inclusive end < i64::MAX or range not reaching it
// @assume the range is bounded (unbounded ranges yield an Error value whose drop glue is outside the encodable fragment; RangeIterator::new only accepts bounded ranges)
// @timeout 1500
#[kani::proof]
fn c13_range_pop() {
    let (mut r, s, e, inc) = any_bounded();
    let front: bool = kani::any();
    let (lo, hi) = alpha(&r);
    let got = if front { r.pop_front() } else { r.pop_back() };
    let got = match got {
        Ok(x) => x,
        Err(err) => {
            std::mem::forget(err);
            assert!(false, "C13.range: pop on a bounded range never fails");
            return;
        }
    };
    let (lo2, hi2) = alpha(&r);
    assert!(r.is_bounded(), "C13.range: a bounded range stays bounded");
    if lo < hi {
        // the remaining set is the old interval minus the popped element; an empty interval has no canonical bounds
        let last = hi - lo == 1;
        if front {
            assert!(got.map(|x| x as i128) == Some(lo), "C13.range: pop_front yields the smallest remaining element");
            assert!(if last { lo2 >= hi2 } else { lo2 == lo + 1 && hi2 == hi }, "C13.range: pop_front removes exactly the smallest element");
        } else {
            assert!(got.map(|x| x as i128) == Some(hi - 1), "C13.range: pop_back yields the largest remaining element");
            assert!(if last { lo2 >= hi2 } else { lo2 == lo && hi2 == hi - 1 }, "C13.range: pop_back removes exactly the largest element");
        }
    } else {
        assert!(got.is_none(), "C13.range: an exhausted range yields nothing");
        assert!(lo2 == hi2, "C13.range: an exhausted range stays exhausted");
    }
    kani::cover!(lo < hi && matches!(r.0, Inner::BoundedLarge(_)) && !front, "pop_back on a boxed range");
    kani::cover!(lo + 1 == hi && inc && front, "last element of an inclusive range");
    kani::cover!(lo >= hi && s > e, "descending range");
}

// @props C13
// @fns RangeIterator::next, RangeIterator::next_back (types/iterator.rs) via KRange::pop_front/pop_back: two consecutive pops from either end
// @bound two pops from an arbitrary bounded range, any mix of ends
// @timeout 1500
#[kani::proof]
fn c13_range_pop2() {
    let (mut r, s, e, inc) = any_bounded();
    let (lo, hi) = alpha(&r);
    kani::assume(hi - lo >= 2);
    let f1: bool = kani::any();
    let f2: bool = kani::any();
    let a = match if f1 { r.pop_front() } else { r.pop_back() } {
        Ok(x) => x,
        Err(err) => { std::mem::forget(err); None }
    };
    let b = match if f2 { r.pop_front() } else { r.pop_back() } {
        Ok(x) => x,
        Err(err) => { std::mem::forget(err); None }
    };
    let ea = if f1 { lo } else { hi - 1 };
    let eb = match (f1, f2) {
        (true, true) => lo + 1,
        (true, false) => hi - 1,
        (false, true) => lo,
        (false, false) => hi - 2,
    };
    if hi - lo >= 3 || f1 != f2 || true {
        assert!(a.map(|x| x as i128) == Some(ea), "C13.range: first of two pops");
        assert!(b.map(|x| x as i128) == Some(eb), "C13.range: second of two pops");
    }
    let (lo2, hi2) = alpha(&r);
    assert!(hi2 - lo2 == hi - lo - 2, "C13.range: two pops remove two elements");
    kani::cover!(f1 && !f2 && inc, "front then back on an inclusive range");
}

// ---------------------------------------------------------------------------------- C14 (ranges as map keys)

// @props C14
// @fns derive(Hash, PartialEq) for KRange / Inner / Bounded64
// @bound pairs of ranges built by KRange::new from all i64 bounds
#[kani::proof]
fn c14_range_key() {
    let (a, sa, ea) = any_range();
    let (b, sb, eb) = any_range();
    // structural equality of ranges: same bounds and same inclusiveness
    assert!((a == b) == (sa == sb && ea == eb), "C14.range: ranges are equal iff their bounds and inclusiveness are");
    kani::cover!(a == b && matches!(a.0, Inner::BoundedLarge(_)), "equal boxed ranges");
}
