// Kani harnesses woven into crates/runtime/src/vm.rs: free helper functions of the VM.
// @weave crates/runtime/src/vm.rs
#![allow(unused)]
use super::*;

// @props C01 C06
// @fns signed_index_to_unsigned (negative indices of unpacking / slicing instructions: TempIndex, SliceFrom, SliceTo)
// @bound all i8 indices x all container sizes <= isize::MAX
#[kani::proof]
fn c01_signed_index() {
    let i: i8 = kani::any();
    let size: usize = kani::any();
    kani::assume(size <= isize::MAX as usize);
    let r = signed_index_to_unsigned(i, size);
    if i >= 0 {
        assert!(r == i as usize, "C01.idx: a non-negative index is itself");
    } else {
        let back = (-(i as i64)) as usize;
        assert!(r == if back > size { 0 } else { size - back }, "C01.idx: a negative index counts from the end, saturating at the start");
        assert!(r <= size, "C01.idx: never beyond the container");
    }
    kani::cover!(i == -128 && size == 5, "most negative index on a short container");
    kani::cover!(i == -1 && size == 0, "-1 on an empty container");
}
