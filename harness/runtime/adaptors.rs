// Kani harnesses woven into crates/runtime/src/types/iterator.rs: iterator adaptors of the core library driven through
// the real KIterator (PtrMut<dyn KotoIterator>) over byte-iterator sources.  The dyn dispatch is decidable for CBMC
// because every iterator in a harness is built from concrete types (the vtable pointers are constants); outputs are
// Numbers, created and forgotten.  The unwinding bound is kept at 3 where the harness has no loop of its own: KValue's drop
// glue is recursive and CBMC unrolls it to that depth wherever a value may be dropped (with 6, a mutated Zip that
// discards an element took the harness past 20 GB).  Parameters that select heap shapes (how many adaptors, which) are concrete, element
// values are symbolic.
// @weave crates/runtime/src/types/iterator.rs
#![allow(unused)]
use super::*;
use crate::core_lib::iterator::adaptors::{Chain, Enumerate, Reversed, Take, Zip};

// error-message construction is not the subject
fn stub_format(_args: std::fmt::Arguments<'_>) -> String {
    String::new()
}

fn src(data: &[u8]) -> KIterator {
    KIterator::new(ByteIterator::new(Ptr::from(data)))
}

fn num(o: Option<KIteratorOutput>) -> Option<i64> {
    let r = match &o {
        Some(KIteratorOutput::Value(KValue::Number(KNumber::I64(n)))) => Some(*n),
        Some(_) => Some(-1),
        None => None,
    };
    std::mem::forget(o);
    r
}

fn pair(o: Option<KIteratorOutput>) -> Option<(i64, i64)> {
    let r = match &o {
        Some(KIteratorOutput::ValuePair(KValue::Number(KNumber::I64(a)), KValue::Number(KNumber::I64(b)))) => Some((*a, *b)),
        Some(_) => Some((-1, -1)),
        None => None,
    };
    std::mem::forget(o);
    r
}

// @props C13
// @fns Take::new, Take::next (core_lib/iterator/adaptors.rs) through KIterator::next over ByteIterator
// @bound source of 3 symbolic bytes, take count symbolic 0..=4, 4 pulls: the produced sequence is the first min(count, 3) elements, then nothing
// @kani --no-memory-safety-checks --no-assertion-reach-checks
// @timeout 900
// @mem 8
#[kani::proof]
#[kani::unwind(6)]
fn c13_adaptor_take() {
    let data: [u8; 3] = kani::any();
    let t: usize = kani::any();
    kani::assume(t <= 4);
    let inner = src(&data);
    let mut shared = inner.clone(); // KIterator clones share the underlying iterator: observes what take consumed
    let mut it = Take::new(inner, t);
    let mut k = 0;
    while k < 4 {
        let got = num(it.next());
        if k < t && k < 3 {
            assert!(got == Some(data[k] as i64), "C13.take: take yields the source elements in order");
        } else {
            assert!(got.is_none(), "C13.take: take stops after count elements or at the end of the source");
        }
        k += 1;
    }
    // laziness: take pulled exactly min(t, 3) elements (one extra pull on an exhausted source is not observable)
    let rest = num(shared.next());
    if t < 3 {
        assert!(rest == Some(data[t] as i64), "C13.take: take never pulls more than count elements from its source");
    } else {
        assert!(rest.is_none(), "C13.take: the source is exhausted");
    }
    kani::cover!(t == 2, "take 2 of 3");
    std::mem::forget(it);
    std::mem::forget(shared);
}

// @props C13
// @fns Zip::new, Zip::next, collect_pair through KIterator over two ByteIterators
// @bound inputs of 2 and 3 symbolic bytes (first shorter): pairs in order, end with the shorter input, and the longer input has lost exactly two elements afterwards (observed through a shared KIterator clone); and the mirrored case (first longer)
// @kani --no-memory-safety-checks --no-assertion-reach-checks
// @timeout 1200
// @mem 10
#[kani::proof]
#[kani::unwind(3)]
fn c13_adaptor_zip() {
    let a: [u8; 2] = kani::any();
    let b: [u8; 3] = kani::any();
    {
        let ib = src(&b);
        let mut shared_b = ib.clone();
        let mut z = Zip::new(src(&a), ib);
        assert!(pair(z.next()) == Some((a[0] as i64, b[0] as i64)), "C13.zip: first pair");
        assert!(pair(z.next()) == Some((a[1] as i64, b[1] as i64)), "C13.zip: second pair");
        assert!(pair(z.next()).is_none(), "C13.zip: zip ends with the shorter input");
        assert!(num(shared_b.next()) == Some(b[2] as i64), "C13.zip: the second input is only pulled when the first produced a value");
        std::mem::forget(z);
        std::mem::forget(shared_b);
    }
    {
        let ia = src(&b);
        let mut shared_a = ia.clone();
        let mut z = Zip::new(ia, src(&a));
        assert!(pair(z.next()) == Some((b[0] as i64, a[0] as i64)), "C13.zip: first pair (first input longer)");
        assert!(pair(z.next()) == Some((b[1] as i64, a[1] as i64)), "C13.zip: second pair (first input longer)");
        assert!(pair(z.next()).is_none(), "C13.zip: zip ends with the shorter second input");
        assert!(num(shared_a.next()).is_none(), "C13.zip: the longer first input has been pulled once more, as documented for zip");
        std::mem::forget(z);
        std::mem::forget(shared_a);
    }
    kani::cover!(true, "the end of the harness is reached past every obligation");
}

// @props C13
// @fns Chain::new, Chain::next through KIterator over two ByteIterators
// @bound two inputs of 2 symbolic bytes each, 5 pulls
// @kani --no-memory-safety-checks --no-assertion-reach-checks
// @timeout 900
// @mem 10
#[kani::proof]
#[kani::unwind(3)]
fn c13_adaptor_chain() {
    let a: [u8; 2] = kani::any();
    let b: [u8; 2] = kani::any();
    let ib = src(&b);
    let mut shared_b = ib.clone();
    let mut c = Chain::new(src(&a), ib);
    assert!(num(c.next()) == Some(a[0] as i64), "C13.chain: first input first");
    assert!(num(c.next()) == Some(a[1] as i64), "C13.chain: first input in order");
    assert!(num(c.next()) == Some(b[0] as i64), "C13.chain: then the second input");
    // laziness: the second input was not touched before the first ran out
    assert!(num(shared_b.next()) == Some(b[1] as i64), "C13.chain: the second input is pulled one element at a time");
    assert!(num(c.next()).is_none(), "C13.chain: ends when both inputs are exhausted");
    std::mem::forget(c);
    std::mem::forget(shared_b);
    kani::cover!(true, "the end of the harness is reached past every obligation");
}

// @props C13
// @fns Reversed::new (is_bidirectional, make_copy), Reversed::next, Reversed::next_back over ByteIterator
// @bound source of 3 symbolic bytes; next / next_back / next / next
// @kani --no-memory-safety-checks --no-assertion-reach-checks
// @timeout 900
// @mem 8
#[kani::proof]
#[kani::unwind(3)]
fn c13_adaptor_reversed() {
    let a: [u8; 3] = kani::any();
    let original = src(&a);
    let mut keep = original.clone();
    let mut r = match Reversed::new(original) {
        Ok(r) => r,
        Err(e) => {
            std::mem::forget(e);
            assert!(false, "C13.reversed: a byte iterator is reversible");
            return;
        }
    };
    assert!(num(r.next()) == Some(a[2] as i64), "C13.reversed: the first element is the source's last");
    assert!(num(r.next_back()) == Some(a[0] as i64), "C13.reversed: next_back yields the source's first");
    assert!(num(r.next()) == Some(a[1] as i64), "C13.reversed: the middle element");
    assert!(num(r.next()).is_none(), "C13.reversed: then nothing");
    // reversed works on a copy: the original advances independently
    assert!(num(keep.next()) == Some(a[0] as i64), "C13.reversed: reversing copies the iterator, the original is untouched");
    std::mem::forget(r);
    std::mem::forget(keep);
    kani::cover!(true, "the end of the harness is reached past every obligation");
}

// @props C13
// @fns Enumerate::new, Enumerate::next over ByteIterator
// @bound source of 2 symbolic bytes, 3 pulls
// @kani --no-memory-safety-checks --no-assertion-reach-checks
// @timeout 900
// @mem 8
#[kani::proof]
#[kani::unwind(3)]
fn c13_adaptor_enumerate() {
    let a: [u8; 2] = kani::any();
    let mut e = Enumerate::new(src(&a));
    assert!(pair(e.next()) == Some((0, a[0] as i64)), "C13.enumerate: index 0");
    assert!(pair(e.next()) == Some((1, a[1] as i64)), "C13.enumerate: index 1");
    assert!(pair(e.next()).is_none(), "C13.enumerate: ends with the source");
    std::mem::forget(e);
    kani::cover!(true, "the end of the harness is reached past every obligation");
}

// DROPPED: Step (Step::next pulls and drops `step - 1` outputs per call): 4 symbolic bytes, step 2, three pulls - no result in 1200 s.
// DROPPED: Skip (Skip::next goes through Iterator::nth on the KIterator, i.e. advance_by with a drop of every skipped
// output): a harness with 3 symbolic bytes, skip 1 and two pulls did not finish in 1800 s and reached 32 GB.

// @props C13 C06
// @fns Cycle::new over a range source (RangeIterator::size_hint, KRange::size)
// @assume std::fmt::format stubbed (the unreachable "unbounded range" error message)
// @bound an arbitrary bounded range (all i64 bounds): constructing the adaptor never panics (it used to reserve its cache from the unbounded size hint: capacity overflow, F20)
// @kani --no-memory-safety-checks --no-assertion-reach-checks
// @timeout 900
// @mem 8
#[kani::proof]
#[kani::unwind(3)]
#[kani::stub(std::fmt::format, stub_format)]
fn c13_adaptor_cycle_new() {
    use crate::core_lib::iterator::adaptors::Cycle;
    let start: i64 = kani::any();
    let end: i64 = kani::any();
    let inclusive: bool = kani::any();
    let range = KRange::new(Some(start), Some((end, inclusive)));
    let it = match RangeIterator::new(range) {
        Ok(it) => KIterator::new(it),
        Err(e) => {
            std::mem::forget(e);
            return;
        }
    };
    let c = Cycle::new(it);
    kani::cover!((end as i128 - start as i128) > (1i128 << 60), "a source with more than 2^60 elements");
    std::mem::forget(c);
}
