// Kani harnesses woven into crates/serde/src/deserializer.rs: serde conversion of primitive values in both directions.
// Values are of a statically known variant (Number / Bool), so the deserializer's match on the value is decidable.
// @weave crates/serde/src/deserializer.rs
// @config cuts=lazy
#![allow(unused)]
use super::*;
use crate::to_koto_value;

// error-message construction is not the subject
fn stub_format(_args: std::fmt::Arguments<'_>) -> String {
    String::new()
}

// work-around for a kani-compiler 0.68 internal error on catch_unwind (thread-local destructor registration reachable
// through the KObject arm of Deserializer::new); thread exit is never reached
fn noop_thread_cleanup() {}

fn any_num() -> KNumber {
    let is_int: bool = kani::any();
    let bits: u64 = kani::any();
    if is_int { KNumber::I64(bits as i64) } else { KNumber::F64(f64::from_bits(bits)) }
}

// the integer a number stands for when read into an integer field: itself, or the float truncated towards zero;
// None when that is not an i64
fn integer_of(n: KNumber) -> Option<i64> {
    match n {
        KNumber::I64(i) => Some(i),
        KNumber::F64(f) => {
            if f >= -9223372036854775808.0 && f < 9223372036854775808.0 { Some(f as i64) } else { None }
        }
    }
}

macro_rules! roundtrip {
    ($t:ty) => {{
        let x: $t = kani::any();
        match to_koto_value(x) {
            Ok(v) => {
                assert!(matches!(&v, KValue::Number(KNumber::I64(n)) if *n == x as i64), "C20.ser: an integer becomes the integer number of the same value");
                match from_koto_value::<$t>(v) {
                    Ok(y) => {
                        assert!(y == x, "C20.roundtrip: a primitive converted to a Koto value and back is unchanged");
                        kani::cover!(true, "a round trip completed");
                    }
                    Err(e) => {
                        std::mem::forget(e);
                        assert!(false, "C20.roundtrip: a converted primitive converts back");
                    }
                }
            }
            Err(e) => {
                std::mem::forget(e);
                assert!(false, "C20.ser: integers up to 64 bits signed serialize");
            }
        }
    }};
}

macro_rules! from_number {
    ($t:ty) => {{
        let n = any_num();
        let want: Option<$t> = match integer_of(n) {
            Some(i) => <$t>::try_from(i).ok(),
            None => None,
        };
        match from_koto_value::<$t>(KValue::Number(n)) {
            Ok(y) => assert!(want == Some(y), "C20.range: a number only converts to an integer type that can represent it, and then to that value"),
            Err(e) => {
                std::mem::forget(e);
                assert!(want.is_none(), "C20.range: a representable number converts");
            }
        }
        kani::cover!(want.is_some() && n.is_f64(), "a float that converts to the integer type");
        kani::cover!(want.is_none(), "a number the type cannot represent");
    }};
}

// @props C20
// @fns to_koto_value (Serializer::serialize_i64 / serialize_u8 / serialize_bool), from_koto_value (Deserializer::new, deserialize_i64 / deserialize_u8 / deserialize_bool), serde_core's primitive visitors
// @bound every i64, every u8, both booleans: value -> KValue -> value
// @assume std::fmt::format stubbed; rc.rs `lazy!` thread-local cache replaced by direct construction (Kani ICE work-around)
// @kani --no-memory-safety-checks --no-assertion-reach-checks
// @timeout 1200
// @mem 10
#[kani::proof]
#[kani::unwind(3)]
#[kani::stub(std::fmt::format, stub_format)]
#[kani::stub(std::rt::thread_cleanup, noop_thread_cleanup)]
fn c20_roundtrip_i64_u8_bool() {
    roundtrip!(i64);
    roundtrip!(u8);
    let b: bool = kani::any();
    match to_koto_value(b) {
        Ok(v) => {
            assert!(matches!(&v, KValue::Bool(c) if *c == b), "C20.ser: a bool becomes a Bool");
            match from_koto_value::<bool>(v) {
                Ok(c) => assert!(c == b, "C20.roundtrip: bool"),
                Err(e) => {
                    std::mem::forget(e);
                    assert!(false, "C20.roundtrip: a converted bool converts back");
                }
            }
        }
        Err(e) => {
            std::mem::forget(e);
            assert!(false, "C20.ser: bool serializes");
        }
    }
}

// @props C20
// @fns from_koto_value::<u8> / ::<i32> / ::<i64> on arbitrary numbers (Deserializer::deserialize_u8 / deserialize_i32 / deserialize_i64, checked_integer)
// @bound any number: integer or float, all 2^64 payloads each (NaN and infinities included): Ok exactly when the (truncated) value is representable by the target type, and then that value; otherwise an error, never a saturated or wrapped value (F21)
// @assume std::fmt::format stubbed; lazy! cut
// @kani --no-memory-safety-checks --no-assertion-reach-checks
// @timeout 1200
// @mem 10
#[kani::proof]
#[kani::unwind(3)]
#[kani::stub(std::fmt::format, stub_format)]
#[kani::stub(std::rt::thread_cleanup, noop_thread_cleanup)]
fn c20_integer_from_number() {
    from_number!(u8);
    from_number!(i32);
    from_number!(i64);
}

// @props C20
// @tier thorough
// @fns the remaining integer widths in both directions; serialize_u64 / serialize_i128 / serialize_u128 range errors
// @bound every value of i8, i16, i32, u16, u32 (round trip); every u64: serializes exactly when it fits an i64
// @kani --no-memory-safety-checks --no-assertion-reach-checks
// @timeout 2400
// @mem 16
#[kani::proof]
#[kani::unwind(3)]
#[kani::stub(std::fmt::format, stub_format)]
#[kani::stub(std::rt::thread_cleanup, noop_thread_cleanup)]
fn c20_roundtrip_other_widths() {
    roundtrip!(i8);
    roundtrip!(i16);
    roundtrip!(i32);
    roundtrip!(u16);
    roundtrip!(u32);
    from_number!(i8);
    from_number!(u16);
    let u: u64 = kani::any();
    match to_koto_value(u) {
        Ok(v) => {
            assert!(u <= i64::MAX as u64 && matches!(&v, KValue::Number(KNumber::I64(n)) if *n as u64 == u), "C20.ser: a u64 serializes exactly when it fits an i64");
            std::mem::forget(v);
        }
        Err(e) => {
            std::mem::forget(e);
            assert!(u > i64::MAX as u64, "C20.ser: a u64 within the i64 range serializes");
        }
    }
}

// @props C20
// @fns impl Serialize for SerializableKValue (Null / Bool / Number arms: the value side of json.to_string, yaml.to_string, toml.to_string) driven into koto's own Serializer
// @bound any number (integer or float, all 2^64 payloads), both booleans, null: the value that reaches the data format has the same kind and the same value (an integer stays an integer at full 64-bit precision, a float stays a float bit for bit)
// @assume std::fmt::format stubbed; lazy! cut; the value is built in the harness, so its variant is statically known
// @kani --no-memory-safety-checks --no-assertion-reach-checks
// @timeout 1200
// @mem 10
#[kani::proof]
#[kani::unwind(3)]
#[kani::stub(std::fmt::format, stub_format)]
#[kani::stub(std::rt::thread_cleanup, noop_thread_cleanup)]
fn c20_value_scalars_serialize() {
    use crate::SerializableKValue;
    let n = any_num();
    let v = KValue::Number(n);
    match to_koto_value(SerializableKValue(&v)) {
        Ok(out) => {
            let same = match (&out, n) {
                (KValue::Number(KNumber::I64(a)), KNumber::I64(b)) => *a == b,
                (KValue::Number(KNumber::F64(a)), KNumber::F64(b)) => a.to_bits() == b.to_bits() || (a.is_nan() && b.is_nan()),
                _ => false,
            };
            assert!(same, "C20.value: a number is serialized with its own kind and its exact value");
            std::mem::forget(out);
        }
        Err(e) => {
            std::mem::forget(e);
            assert!(false, "C20.value: numbers serialize");
        }
    }
    let b: bool = kani::any();
    let vb = KValue::Bool(b);
    match to_koto_value(SerializableKValue(&vb)) {
        Ok(out) => {
            assert!(matches!(&out, KValue::Bool(c) if *c == b), "C20.value: a bool is serialized as itself");
            std::mem::forget(out);
        }
        Err(e) => {
            std::mem::forget(e);
            assert!(false, "C20.value: bools serialize");
        }
    }
    kani::cover!(matches!(n, KNumber::I64(i) if i > (1 << 53) && i % 2 == 1), "an odd integer above 2^53");
    std::mem::forget(v);
    std::mem::forget(vb);
}

// DROPPED: char round trip (serialize_char -> Str -> deserialize_char). Neither a fully symbolic scalar value (1500 s) nor one
// character per UTF-8 length with five symbolic low bits (2400 s) finished: the string construction and the
// `chars().count()` scan over a heap string of symbolic length are outside what CBMC handles here.
