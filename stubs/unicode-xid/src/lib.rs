// Model of unicode-xid, exact on the alphabet {ASCII, U+00E9, U+5B57, U+0301}.
// Outside the alphabet the model refuses to answer: kani::assume(false) under Kani, panic natively.

fn outside_alphabet() {
    #[cfg(kani)]
    kani::assume(false);
    #[cfg(not(kani))]
    panic!("unicode-xid model: character outside the modelled alphabet");
}

pub trait UnicodeXID {
    fn is_xid_start(self) -> bool;
    fn is_xid_continue(self) -> bool;
}

impl UnicodeXID for char {
    #[inline]
    fn is_xid_start(self) -> bool {
        match self {
            'a'..='z' | 'A'..='Z' => true,
            '\u{0}'..='\u{7f}' => false,
            '\u{e9}' | '\u{5b57}' => true,
            '\u{301}' => false,
            _ => {
                outside_alphabet();
                false
            }
        }
    }

    #[inline]
    fn is_xid_continue(self) -> bool {
        match self {
            'a'..='z' | 'A'..='Z' | '0'..='9' | '_' => true,
            '\u{0}'..='\u{7f}' => false,
            '\u{e9}' | '\u{5b57}' | '\u{301}' => true,
            _ => {
                outside_alphabet();
                false
            }
        }
    }
}
