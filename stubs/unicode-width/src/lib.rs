// Model of unicode-width 0.2, exact on the alphabet {ASCII, U+00E9, U+5B57, U+0301}
// (string widths: exact on strings over that alphabet, validated natively against the real crate).

fn outside_alphabet() {
    #[cfg(kani)]
    kani::assume(false);
    #[cfg(not(kani))]
    panic!("unicode-width model: character outside the modelled alphabet");
}

pub trait UnicodeWidthChar {
    fn width(self) -> Option<usize>;
    fn width_cjk(self) -> Option<usize>;
}

impl UnicodeWidthChar for char {
    #[inline]
    fn width(self) -> Option<usize> {
        match self {
            '\u{0}'..='\u{1f}' | '\u{7f}' => None,
            '\u{20}'..='\u{7e}' => Some(1),
            '\u{e9}' => Some(1),
            '\u{5b57}' => Some(2),
            '\u{301}' => Some(0),
            _ => {
                outside_alphabet();
                None
            }
        }
    }

    #[inline]
    fn width_cjk(self) -> Option<usize> {
        // U+00E9 is not East Asian Ambiguous; U+0301 is a combining mark: same as width() on the alphabet
        self.width()
    }
}

pub trait UnicodeWidthStr {
    fn width(&self) -> usize;
    fn width_cjk(&self) -> usize;
}

// String width in unicode-width 0.2: control characters count 1, except that CR LF counts 1 in total.
fn str_width(s: &str, cjk: bool) -> usize {
    let mut total = 0;
    let mut prev_cr = false;
    for c in s.chars() {
        let w = match c {
            '\n' if prev_cr => 0,
            '\u{0}'..='\u{1f}' | '\u{7f}' => 1,
            _ => (if cjk { UnicodeWidthChar::width_cjk(c) } else { UnicodeWidthChar::width(c) }).unwrap_or(0),
        };
        prev_cr = c == '\r';
        total += w;
    }
    total
}

impl UnicodeWidthStr for str {
    #[inline]
    fn width(&self) -> usize {
        str_width(self, false)
    }

    #[inline]
    fn width_cjk(&self) -> usize {
        str_width(self, true)
    }
}
