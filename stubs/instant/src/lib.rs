// Model of `instant::Instant`: a nanosecond counter. `Instant::now()` returns an arbitrary value that is not
// smaller than the previous reading (the documented contract of a monotonic clock) and counts the readings.
// Under `cargo kani` the value is a solver variable; in `cargo kani playback` it is the replayed value.
pub use std::time::Duration;
use std::ops::{Add, Sub};

#[derive(Clone, Copy, Debug, PartialEq, Eq, PartialOrd, Ord, Hash)]
pub struct Instant(pub u64);

static mut LAST: u64 = 0;
static mut READS: u32 = 0;

// readings stay below 2^62 ns (146 years) so that deadline arithmetic cannot overflow
pub const HORIZON: u64 = 1 << 62;

impl Instant {
    pub fn now() -> Instant {
        #[cfg(kani)]
        let t: u64 = kani::any();
        #[cfg(not(kani))]
        let t: u64 = unsafe { LAST } + 1;
        unsafe {
            #[cfg(kani)]
            kani::assume(t >= LAST && t < HORIZON);
            LAST = t;
            READS += 1;
        }
        Instant(t)
    }

    pub fn duration_since(&self, earlier: Instant) -> Duration {
        Duration::from_nanos(self.0.saturating_sub(earlier.0))
    }

    pub fn elapsed(&self) -> Duration {
        Instant::now().duration_since(*self)
    }
}

/// Number of clock readings so far (harness observation point).
pub fn verif_reads() -> u32 {
    unsafe { READS }
}

/// The most recent clock reading (harness observation point).
pub fn verif_last() -> u64 {
    unsafe { LAST }
}

/// Sets the clock's last reading (harness: arbitrary pre-state).
pub fn verif_set_last(t: u64) {
    unsafe { LAST = t }
}

fn nanos(d: Duration) -> u64 {
    // durations in the harnesses are far below u64::MAX nanoseconds
    d.as_secs().wrapping_mul(1_000_000_000).wrapping_add(d.subsec_nanos() as u64)
}

impl Add<Duration> for Instant {
    type Output = Instant;
    fn add(self, d: Duration) -> Instant {
        Instant(self.0 + nanos(d))
    }
}

impl Sub<Duration> for Instant {
    type Output = Instant;
    fn sub(self, d: Duration) -> Instant {
        Instant(self.0 - nanos(d))
    }
}

impl Sub<Instant> for Instant {
    type Output = Duration;
    fn sub(self, other: Instant) -> Duration {
        // std panics when `other` is later; so does the model
        Duration::from_nanos(self.0 - other.0)
    }
}
