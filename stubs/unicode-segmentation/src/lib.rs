// Model of unicode-segmentation's extended grapheme clusters, exact on strings over the alphabet
// {ASCII, U+00E9, U+5B57, U+0301}: CR LF is one cluster, every other control character is a cluster of
// its own, and a non-control character absorbs the U+0301 (Extend) characters that follow it.

fn outside_alphabet() {
    #[cfg(kani)]
    kani::assume(false);
    #[cfg(not(kani))]
    panic!("unicode-segmentation model: character outside the modelled alphabet");
}

#[derive(Clone, Copy, PartialEq)]
enum Class {
    Control,
    Cr,
    Lf,
    Extend,
    Other,
}

fn class(c: char) -> Class {
    match c {
        '\r' => Class::Cr,
        '\n' => Class::Lf,
        '\u{0}'..='\u{1f}' | '\u{7f}' => Class::Control,
        '\u{20}'..='\u{7e}' | '\u{e9}' | '\u{5b57}' => Class::Other,
        '\u{301}' => Class::Extend,
        _ => {
            outside_alphabet();
            Class::Other
        }
    }
}

fn first_cluster_len(s: &str) -> usize {
    let mut chars = s.chars();
    let Some(c) = chars.next() else { return 0 };
    let mut len = c.len_utf8();
    match class(c) {
        Class::Cr => {
            if chars.next() == Some('\n') {
                len += 1;
            }
        }
        Class::Lf | Class::Control => {}
        Class::Extend | Class::Other => {
            for n in chars {
                if class(n) == Class::Extend {
                    len += n.len_utf8();
                } else {
                    break;
                }
            }
        }
    }
    len
}

fn last_cluster_len(s: &str) -> usize {
    let mut chars = s.chars().rev();
    let Some(c) = chars.next() else { return 0 };
    let mut len = c.len_utf8();
    match class(c) {
        Class::Lf => {
            if chars.next() == Some('\r') {
                len += 1;
            }
        }
        Class::Cr | Class::Control | Class::Other => {}
        Class::Extend => {
            for p in chars {
                match class(p) {
                    Class::Extend => len += p.len_utf8(),
                    Class::Other => {
                        len += p.len_utf8();
                        break;
                    }
                    _ => break,
                }
            }
        }
    }
    len
}

#[derive(Clone, Debug)]
pub struct Graphemes<'a> {
    rest: &'a str,
}

impl<'a> Graphemes<'a> {
    pub fn as_str(&self) -> &'a str {
        self.rest
    }
}

impl<'a> Iterator for Graphemes<'a> {
    type Item = &'a str;

    #[inline]
    fn next(&mut self) -> Option<&'a str> {
        if self.rest.is_empty() {
            return None;
        }
        let n = first_cluster_len(self.rest);
        let (head, tail) = self.rest.split_at(n);
        self.rest = tail;
        Some(head)
    }
}

impl<'a> DoubleEndedIterator for Graphemes<'a> {
    #[inline]
    fn next_back(&mut self) -> Option<&'a str> {
        if self.rest.is_empty() {
            return None;
        }
        let n = last_cluster_len(self.rest);
        let (head, tail) = self.rest.split_at(self.rest.len() - n);
        self.rest = head;
        Some(tail)
    }
}

#[derive(Clone, Debug)]
pub struct GraphemeIndices<'a> {
    start: usize,
    iter: Graphemes<'a>,
}

impl<'a> GraphemeIndices<'a> {
    pub fn as_str(&self) -> &'a str {
        self.iter.as_str()
    }
}

impl<'a> Iterator for GraphemeIndices<'a> {
    type Item = (usize, &'a str);

    #[inline]
    fn next(&mut self) -> Option<(usize, &'a str)> {
        let at = self.start;
        let g = self.iter.next()?;
        self.start += g.len();
        Some((at, g))
    }
}

impl<'a> DoubleEndedIterator for GraphemeIndices<'a> {
    #[inline]
    fn next_back(&mut self) -> Option<(usize, &'a str)> {
        let g = self.iter.next_back()?;
        Some((self.start + self.iter.as_str().len(), g))
    }
}

pub trait UnicodeSegmentation {
    fn graphemes(&self, is_extended: bool) -> Graphemes<'_>;
    fn grapheme_indices(&self, is_extended: bool) -> GraphemeIndices<'_>;
}

impl UnicodeSegmentation for str {
    #[inline]
    fn graphemes(&self, _is_extended: bool) -> Graphemes<'_> {
        Graphemes { rest: self }
    }

    #[inline]
    fn grapheme_indices(&self, _is_extended: bool) -> GraphemeIndices<'_> {
        GraphemeIndices { start: 0, iter: Graphemes { rest: self } }
    }
}
